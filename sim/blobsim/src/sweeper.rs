//! profile `sweeper`: a real `OutputSweeperSync` over a fault-injecting KV store, a simulated chain
//! with reorganisations, a recording broadcaster and a real `KeysManager` as output spender.

use crate::scorer::Sink;
use bitcoin::block::{Header, Version};
use bitcoin::hashes::Hash;
use bitcoin::pow::CompactTarget;
use bitcoin::{Amount, BlockHash, OutPoint as BtcOutPoint, ScriptBuf, Transaction, TxMerkleNode, TxOut, Txid};
use lightning::chain::chaininterface::{BroadcasterInterface, ConfirmationTarget, FeeEstimator, TransactionType};
use lightning::chain::transaction::OutPoint;
use lightning::chain::{BlockLocator, Filter, Listen, WatchedOutput};
use lightning::io;
use lightning::ln::types::ChannelId;
use lightning::sign::{ChangeDestinationSourceSync, KeysManager, NodeSigner, SignerProvider, SpendableOutputDescriptor};
use lightning::util::persist::{
	KVStoreSync, OUTPUT_SWEEPER_PERSISTENCE_KEY, OUTPUT_SWEEPER_PERSISTENCE_PRIMARY_NAMESPACE,
	OUTPUT_SWEEPER_PERSISTENCE_SECONDARY_NAMESPACE,
};
use lightning::util::ser::ReadableArgs;
use lightning::util::sweep::{OutputSpendStatus, OutputSweeperSync, TrackedSpendableOutput, PRUNE_DELAY_BLOCKS};
use serde::{Deserialize, Serialize};
use serde_json::json;
use simcore::runner::catch;
use simcore::{fnv, fnv_extend, Rng, RunOutcome, Tier};
use std::collections::{BTreeMap, BTreeSet};
use std::sync::atomic::{AtomicU32, Ordering};
use std::sync::{Arc, Mutex};

pub const PROP: &str = "C07";
/// confirmations below which no tracked output may ever be forgotten (property text)
pub const ANTI_REORG_DELAY: u32 = 6;

// ---- stubs -----------------------------------------------------------------------------------

#[derive(Default)]
pub struct KvInner {
	pub map: BTreeMap<String, Vec<u8>>,
	/// the next n writes return an error
	pub fail_next: u32,
	/// ... and take effect anyway
	pub fail_applies: bool,
	/// crash at the k-th write from now (1 = the next one); does that write survive
	pub crash_in: Option<(u32, bool)>,
	/// the process is "dead": the store no longer changes, every operation fails
	pub frozen: bool,
	pub writes: u64,
	pub applied: u64,
	pub errs: u64,
}

pub struct SimKv(pub Mutex<KvInner>);

impl KVStoreSync for SimKv {
	fn read(&self, p: &str, s: &str, k: &str) -> Result<Vec<u8>, io::Error> {
		let g = self.0.lock().unwrap();
		g.map.get(&format!("{}/{}/{}", p, s, k)).cloned().ok_or_else(|| io::Error::new(io::ErrorKind::NotFound, "no such key"))
	}
	fn write(&self, p: &str, s: &str, k: &str, buf: Vec<u8>) -> Result<(), io::Error> {
		let mut g = self.0.lock().unwrap();
		g.writes += 1;
		if g.frozen {
			g.errs += 1;
			return Err(io::Error::new(io::ErrorKind::Other, "process is down"));
		}
		let key = format!("{}/{}/{}", p, s, k);
		if let Some((n, survives)) = g.crash_in {
			if n <= 1 {
				g.crash_in = None;
				g.frozen = true;
				if survives {
					g.map.insert(key, buf);
					g.applied += 1;
					return Ok(());
				}
				g.errs += 1;
				return Err(io::Error::new(io::ErrorKind::Other, "crashed before the write"));
			}
			g.crash_in = Some((n - 1, survives));
		}
		if g.fail_next > 0 {
			g.fail_next -= 1;
			g.errs += 1;
			if g.fail_applies {
				g.map.insert(key, buf);
				g.applied += 1;
			}
			return Err(io::Error::new(io::ErrorKind::Other, "injected write error"));
		}
		g.map.insert(key, buf);
		g.applied += 1;
		Ok(())
	}
	fn remove(&self, p: &str, s: &str, k: &str, _lazy: bool) -> Result<(), io::Error> {
		let mut g = self.0.lock().unwrap();
		if g.frozen {
			return Err(io::Error::new(io::ErrorKind::Other, "process is down"));
		}
		g.map.remove(&format!("{}/{}/{}", p, s, k));
		Ok(())
	}
	fn list(&self, _p: &str, _s: &str) -> Result<Vec<String>, io::Error> {
		Ok(self.0.lock().unwrap().map.keys().cloned().collect())
	}
}

pub struct Bcast(pub Mutex<Vec<Transaction>>);
impl BroadcasterInterface for Bcast {
	fn broadcast_transactions(&self, txs: &[(&Transaction, TransactionType)]) {
		let mut g = self.0.lock().unwrap();
		for (t, _) in txs {
			g.push((*t).clone());
		}
	}
}

pub struct Fee(pub AtomicU32);
impl FeeEstimator for Fee {
	fn get_est_sat_per_1000_weight(&self, _t: ConfirmationTarget) -> u32 {
		self.0.load(Ordering::Relaxed)
	}
}

pub struct NoFilter;
impl Filter for NoFilter {
	fn register_tx(&self, _: &Txid, _: &bitcoin::Script) {}
	fn register_output(&self, _: WatchedOutput) {}
}

/// Hands out a different p2wpkh-shaped script each time and remembers all of them.
pub struct ChangeSrc {
	pub salt: u64,
	pub given: Mutex<Vec<ScriptBuf>>,
}
impl ChangeDestinationSourceSync for ChangeSrc {
	fn get_change_destination_script(&self) -> Result<ScriptBuf, ()> {
		let mut g = self.given.lock().unwrap();
		let mut h = [0u8; 20];
		let x = fnv_extend(self.salt, &(g.len() as u64).to_le_bytes());
		h[..8].copy_from_slice(&x.to_le_bytes());
		h[8..16].copy_from_slice(&fnv(&x.to_le_bytes()).to_le_bytes());
		let s = ScriptBuf::new_p2wpkh(&bitcoin::WPubkeyHash::from_byte_array(h));
		g.push(s.clone());
		Ok(s)
	}
}

type Sweeper =
	OutputSweeperSync<Arc<Bcast>, Arc<ChangeSrc>, Arc<Fee>, Arc<NoFilter>, Arc<SimKv>, Arc<Sink>, Arc<KeysManager>>;

// ---- configuration and actions ---------------------------------------------------------------

#[derive(Clone, Debug, PartialEq, Serialize, Deserialize)]
pub struct OutCfg {
	pub value_sats: u64,
	/// pays to the KeysManager's destination script (else: its shutdown script)
	pub to_destination: bool,
	pub vout: u32,
}

#[derive(Clone, Debug, PartialEq, Serialize, Deserialize)]
pub struct Config {
	pub key_seed: u64,
	pub start_height: u32,
	pub outs: Vec<OutCfg>,
	pub max_steps: u64,
	/// track, connect, reorg, fee, kvfail, crash, crash-at-op, regenerate, empty-blocks
	pub weights: [u32; 9],
	pub long_empty: bool,
}

#[derive(Clone, Debug, PartialEq, Serialize, Deserialize)]
pub enum Action {
	Track { outs: Vec<usize>, channel: Option<u8>, counterparty: bool, exclude_static: bool, delay_until_height: Option<u32> },
	/// one block carrying the listed broadcast transactions (indexes into the broadcast log)
	ConnectBlock { include: Vec<usize> },
	ConnectEmpty { n: u32 },
	/// `depth` blocks are replaced by `depth` new ones; `remine`: the first new block carries the
	/// transactions of the replaced blocks again
	Reorg { depth: u32, remine: bool },
	FeeChange { sat_per_kw: u32 },
	KvFailNext { n: u32, applies: bool },
	Crash { truncate_at: Option<u32> },
	/// the process dies at the k-th store write from now; the sweeper is rebuilt when the action
	/// during which that write happened returns
	CrashAtOp { k: u32, survives: bool },
	Regenerate,
	/// faults stop: sweep, mine everything broadcast, bury it, expect an empty list (liveness)
	Settle,
}

impl Action {
	fn kind(&self) -> &'static str {
		match self {
			Action::Track { .. } => "Track",
			Action::ConnectBlock { .. } => "ConnectBlock",
			Action::ConnectEmpty { .. } => "ConnectEmpty",
			Action::Reorg { .. } => "Reorg",
			Action::FeeChange { .. } => "FeeChange",
			Action::KvFailNext { .. } => "KvFailNext",
			Action::Crash { .. } => "Crash",
			Action::CrashAtOp { .. } => "CrashAtOp",
			Action::Regenerate => "Regenerate",
			Action::Settle => "Settle",
		}
	}
}

struct Block {
	header: Header,
	hash: BlockHash,
	txs: Vec<Transaction>,
}

#[derive(Clone, Debug, PartialEq)]
struct Snap {
	outputs: Vec<TrackedSpendableOutput>,
	best: BlockLocator,
}

pub struct World {
	pub cfg: Config,
	pub out: RunOutcome,
	pub step: u64,
	pub dead: bool,
	pub trace: Vec<Action>,
	kv: Arc<SimKv>,
	bcast: Arc<Bcast>,
	fee: Arc<Fee>,
	change: Arc<ChangeSrc>,
	keys: Arc<KeysManager>,
	sweeper: Option<Sweeper>,
	descs: Vec<SpendableOutputDescriptor>,
	outpoints: Vec<BtcOutPoint>,
	/// active chain; index 0 is the block at `cfg.start_height`
	chain: Vec<Block>,
	/// every header ever produced: hash -> (height, previous hash)
	all_blocks: BTreeMap<BlockHash, (u32, BlockHash)>,
	nonce: u32,
	/// outputs whose Track call returned Ok
	acked: BTreeSet<usize>,
	/// delay of the call that introduced the output into the in-memory list
	delay: BTreeMap<usize, Option<u32>>,
	/// in-memory state right after the last store write that took effect
	persisted: Option<Snap>,
	applied_seen: u64,
	bcast_seen: usize,
	prev_tracked: BTreeSet<usize>,
	hist: u64,
	inter: u64,
	restarts: u64,
	pruned: u64,
	settled: bool,
}

fn outpoint_txid(seed: u64, i: usize) -> Txid {
	let mut b = [0u8; 32];
	let mut r = Rng::new(simcore::mix(seed ^ 0x5eed, i as u64));
	r.fill(&mut b);
	Txid::from_byte_array(b)
}

impl World {
	pub fn new(cfg: Config) -> World {
		let mut seed = [0u8; 32];
		Rng::new(cfg.key_seed).fill(&mut seed);
		let keys = Arc::new(KeysManager::new(&seed, 1_700_000_000, 7, true));
		let dest = keys.get_destination_script([0; 32]).expect("destination script");
		let shut = keys.get_shutdown_scriptpubkey().expect("shutdown script").into_inner();
		let mut descs = Vec::new();
		let mut outpoints = Vec::new();
		for (i, o) in cfg.outs.iter().enumerate() {
			let txid = outpoint_txid(cfg.key_seed, i);
			let op = OutPoint { txid, index: o.vout as u16 };
			outpoints.push(op.into_bitcoin_outpoint());
			let mut id = [0u8; 32];
			id[0] = i as u8;
			descs.push(SpendableOutputDescriptor::StaticOutput {
				outpoint: op,
				output: TxOut {
					value: Amount::from_sat(o.value_sats),
					script_pubkey: if o.to_destination { dest.clone() } else { shut.clone() },
				},
				channel_keys_id: Some(id),
			});
		}
		let mut w = World {
			out: RunOutcome::default(),
			step: 0,
			dead: false,
			trace: Vec::new(),
			kv: Arc::new(SimKv(Mutex::new(KvInner::default()))),
			bcast: Arc::new(Bcast(Mutex::new(Vec::new()))),
			fee: Arc::new(Fee(AtomicU32::new(253))),
			change: Arc::new(ChangeSrc { salt: cfg.key_seed, given: Mutex::new(Vec::new()) }),
			keys,
			sweeper: None,
			descs,
			outpoints,
			chain: Vec::new(),
			all_blocks: BTreeMap::new(),
			nonce: 0,
			acked: BTreeSet::new(),
			delay: BTreeMap::new(),
			persisted: None,
			applied_seen: 0,
			bcast_seen: 0,
			prev_tracked: BTreeSet::new(),
			hist: fnv(b"blobsim/sweeper"),
			inter: fnv(b"i"),
			restarts: 0,
			pruned: 0,
			settled: false,
			cfg,
		};
		let prev = BlockHash::from_byte_array([0x11; 32]);
		let b = w.make_block(prev, Vec::new());
		w.all_blocks.insert(b.hash, (w.cfg.start_height, prev));
		let best = BlockLocator::new(b.hash, w.cfg.start_height);
		w.chain.push(b);
		w.sweeper = Some(OutputSweeperSync::new(
			best,
			w.bcast.clone(),
			w.fee.clone(),
			None,
			w.keys.clone(),
			w.change.clone(),
			w.kv.clone(),
			Arc::new(Sink),
		));
		w
	}

	fn make_block(&mut self, prev: BlockHash, txs: Vec<Transaction>) -> Block {
		self.nonce += 1;
		let header = Header {
			version: Version::from_consensus(2),
			prev_blockhash: prev,
			merkle_root: TxMerkleNode::all_zeros(),
			time: 1_700_000_000 + self.nonce,
			bits: CompactTarget::from_consensus(0x207fffff),
			nonce: self.nonce,
		};
		Block { hash: header.block_hash(), header, txs }
	}

	fn tip_height(&self) -> u32 {
		self.cfg.start_height + self.chain.len() as u32 - 1
	}

	fn fail(&mut self, prop: &str, oracle: &str, msg: String) {
		self.out.violate(prop, oracle, self.step, msg);
		self.dead = true;
	}

	fn lib_panic(&mut self, what: &str, e: (String, String)) {
		self.fail(PROP, "C07-0 panic", format!("{} panicked at {}: {}", what, e.1, e.0));
	}

	fn out_index(&self, op: &BtcOutPoint) -> Option<usize> {
		self.outpoints.iter().position(|o| o == op)
	}

	/// height at which output `i` is spent on the active chain
	fn spend_height(&self, i: usize) -> Option<(u32, BlockHash)> {
		let op = self.outpoints[i];
		for (k, b) in self.chain.iter().enumerate() {
			if b.txs.iter().any(|t| t.input.iter().any(|inp| inp.previous_output == op)) {
				return Some((self.cfg.start_height + k as u32, b.hash));
			}
		}
		None
	}

	fn spent_on_chain(&self) -> BTreeSet<BtcOutPoint> {
		let mut s = BTreeSet::new();
		for b in self.chain.iter() {
			for t in b.txs.iter() {
				for i in t.input.iter() {
					s.insert(i.previous_output);
				}
			}
		}
		s
	}

	fn tracked(&self) -> Vec<TrackedSpendableOutput> {
		self.sweeper.as_ref().map(|s| s.tracked_spendable_outputs()).unwrap_or_default()
	}

	fn snap(&self) -> Snap {
		let s = self.sweeper.as_ref().expect("sweeper");
		Snap { outputs: s.tracked_spendable_outputs(), best: s.current_best_block() }
	}

	/// Tells the sweeper about block number `k` of the active chain.
	fn connect_to_sweeper(&mut self, k: usize) -> bool {
		let height = self.cfg.start_height + k as u32;
		let b = &self.chain[k];
		let txdata: Vec<(usize, &Transaction)> = b.txs.iter().enumerate().collect();
		let s = self.sweeper.as_ref().expect("sweeper");
		match catch(|| s.filtered_block_connected(&b.header, &txdata, height)) {
			Ok(()) => true,
			Err(e) => {
				self.lib_panic("filtered_block_connected", e);
				false
			},
		}
	}

	/// Brings the sweeper from wherever its best block is to the tip of the active chain.
	fn resync(&mut self) {
		let best = self.sweeper.as_ref().expect("sweeper").current_best_block();
		// first ancestor of the sweeper's best block that is on the active chain
		let (mut h, mut hash) = (best.height, best.block_hash);
		let on_chain = |w: &World, h: u32, hash: BlockHash| {
			h >= w.cfg.start_height && ((h - w.cfg.start_height) as usize) < w.chain.len() && w.chain[(h - w.cfg.start_height) as usize].hash == hash
		};
		while !on_chain(self, h, hash) {
			match self.all_blocks.get(&hash) {
				Some((_, prev)) if h > self.cfg.start_height => {
					hash = *prev;
					h -= 1;
				},
				_ => {
					self.out.harness_errors.push("sweeper best block unknown to the simulated chain".into());
					self.dead = true;
					return;
				},
			}
		}
		if h < best.height {
			self.out.bump("probe:restart_on_stale_branch");
			let s = self.sweeper.as_ref().expect("sweeper");
			if let Err(e) = catch(|| s.blocks_disconnected(BlockLocator::new(hash, h))) {
				return self.lib_panic("blocks_disconnected", e);
			}
		}
		let from = (h - self.cfg.start_height) as usize + 1;
		for k in from..self.chain.len() {
			if !self.connect_to_sweeper(k) {
				return;
			}
		}
	}

	fn check_broadcasts(&mut self) {
		let txs: Vec<Transaction> = self.bcast.0.lock().unwrap()[self.bcast_seen..].to_vec();
		self.bcast_seen += txs.len();
		let height = self.sweeper.as_ref().map(|s| s.current_best_block().height).unwrap_or(0);
		let given: BTreeSet<ScriptBuf> = self.change.given.lock().unwrap().iter().cloned().collect();
		for tx in txs.iter() {
			self.out.bump("oracle:C07-S3 sweep-tx");
			self.hist = fnv_extend(self.hist, &tx.compute_txid().to_byte_array());
			let mut seen = BTreeSet::new();
			let mut sum_in = 0u64;
			if tx.input.is_empty() {
				return self.fail(PROP, "C07-S3 sweep-tx", "sweep without inputs".into());
			}
			for inp in tx.input.iter() {
				let i = match self.out_index(&inp.previous_output) {
					Some(i) if self.prev_tracked.contains(&i) || self.delay.contains_key(&i) => i,
					_ => return self.fail(PROP, "C07-S3 sweep-tx", format!("sweep spends {} which was never tracked", inp.previous_output)),
				};
				if !seen.insert(i) {
					return self.fail(PROP, "C07-S3 sweep-tx", format!("sweep spends output #{} twice", i));
				}
				sum_in += self.cfg.outs[i].value_sats;
				if let Some(Some(d)) = self.delay.get(&i) {
					self.out.bump("oracle:C07-S4 delay");
					if height < *d {
						return self.fail(PROP, "C07-S4 delay", format!("output #{} delayed until height {} swept at height {}", i, d, height));
					}
				}
				if inp.witness.is_empty() {
					return self.fail(PROP, "C07-S3 sweep-tx", format!("input for output #{} is unsigned", i));
				}
			}
			let lt = tx.lock_time.to_consensus_u32();
			if lt >= 500_000_000 || lt > height {
				return self.fail(PROP, "C07-S3 sweep-tx", format!("lock time {} is not final for the block after height {}", lt, height));
			}
			let sum_out: u64 = tx.output.iter().map(|o| o.value.to_sat()).sum();
			if sum_out > sum_in {
				return self.fail(PROP, "C07-S3 sweep-tx", format!("outputs {} exceed inputs {}", sum_out, sum_in));
			}
			for o in tx.output.iter() {
				if !given.contains(&o.script_pubkey) {
					return self.fail(PROP, "C07-S3 sweep-tx", "sweep pays to a script that is not a change destination".into());
				}
			}
			if tx.output.is_empty() {
				self.out.bump("probe:sweep_all_to_fee");
			}
			if tx.input.len() > 1 {
				self.out.bump("probe:batched_sweep");
			}
		}
	}

	/// Oracles evaluated after every action (the sweeper is in sync with the active chain here).
	fn check_state(&mut self, after_restart: bool) {
		if self.dead || self.sweeper.is_none() {
			return;
		}
		let tracked = self.tracked();
		let best = self.sweeper.as_ref().unwrap().current_best_block();
		let tip = self.tip_height();
		if best.height != tip || best.block_hash != self.chain.last().unwrap().hash {
			return self.fail(PROP, "C07-S2 status", format!("sweeper best block {}@{} is not the tip {}", best.block_hash, best.height, tip));
		}
		let mut now: BTreeSet<usize> = BTreeSet::new();
		for t in tracked.iter() {
			let op = t.descriptor.spendable_outpoint().into_bitcoin_outpoint();
			match self.out_index(&op) {
				Some(i) => {
					now.insert(i);
				},
				None => return self.fail(PROP, "C07-S2 status", format!("tracked output {} was never given to the sweeper", op)),
			}
		}
		// S2: what left the list must be buried
		self.out.bump("oracle:C07-S2 no-early-prune");
		let must_hold: Vec<usize> = if after_restart {
			self.out.bump("oracle:C07-S1 durability");
			self.acked.iter().cloned().collect()
		} else {
			self.prev_tracked.iter().cloned().collect()
		};
		for i in must_hold {
			if now.contains(&i) {
				continue;
			}
			let confs = self.spend_height(i).map(|(h, _)| tip + 1 - h).unwrap_or(0);
			let (oracle, what) = if after_restart {
				("C07-S1 durability", "was acknowledged by track_spendable_outputs but is gone after the restart")
			} else {
				("C07-S2 no-early-prune", "left tracked_spendable_outputs()")
			};
			if confs < ANTI_REORG_DELAY {
				return self.fail(PROP, oracle, format!("output #{} {} while its spend has {} confirmations [anti-reorg]", i, what, confs));
			}
			if confs < PRUNE_DELAY_BLOCKS {
				return self.fail(PROP, oracle, format!("output #{} {} while its spend has {} confirmations, fewer than the documented PRUNE_DELAY_BLOCKS {} [prune-delay]", i, what, confs, PRUNE_DELAY_BLOCKS));
			}
			self.pruned += 1;
			self.out.bump("probe:output_pruned_after_burial");
			self.acked.remove(&i);
		}
		// S2: the sweeper's belief about confirmation matches the chain it was told about
		self.out.bump("oracle:C07-S2 status");
		for t in tracked.iter() {
			let op = t.descriptor.spendable_outpoint().into_bitcoin_outpoint();
			let i = self.out_index(&op).unwrap();
			let real = self.spend_height(i);
			match (&t.status, real) {
				(OutputSpendStatus::PendingThresholdConfirmations { confirmation_height, confirmation_hash, .. }, Some((h, hash))) => {
					if *confirmation_height != h || *confirmation_hash != hash {
						return self.fail(PROP, "C07-S2 status", format!("output #{}: sweeper believes its spend confirmed at {} ({}), the chain has it at {} ({})", i, confirmation_height, confirmation_hash, h, hash));
					}
				},
				(OutputSpendStatus::PendingThresholdConfirmations { confirmation_height, .. }, None) => {
					return self.fail(PROP, "C07-S2 status", format!("output #{}: sweeper believes its spend confirmed at height {} but no block of its chain spends it (not pending again after a reorganisation)", i, confirmation_height));
				},
				(_, Some((h, _))) => {
					return self.fail(PROP, "C07-S2 status", format!("output #{}: spent at height {} in a block given to the sweeper, but its status is {:?}", i, h, t.status));
				},
				_ => {},
			}
		}
		self.prev_tracked = now;
		if self.out.state_fps.len() < 4096 {
			let mut h = fnv(b"sw");
			for t in tracked.iter() {
				h = fnv_extend(h, &[match t.status {
					OutputSpendStatus::PendingInitialBroadcast { delayed_until_height: None } => 0,
					OutputSpendStatus::PendingInitialBroadcast { .. } => 1,
					OutputSpendStatus::PendingFirstConfirmation { .. } => 2,
					OutputSpendStatus::PendingThresholdConfirmations { .. } => 3,
				}]);
			}
			let g = self.kv.0.lock().unwrap();
			h = fnv_extend(h, &[g.fail_next.min(3) as u8, g.crash_in.is_some() as u8]);
			drop(g);
			self.out.state_fps.push(h);
		}
		for t in tracked.iter() {
			self.hist = fnv_extend(self.hist, format!("{:?}", t.status).as_bytes());
		}
		self.hist = fnv_extend(self.hist, &best.height.to_le_bytes());
	}

	/// After an action that may have written: remember what the store now holds.
	fn note_persist(&mut self) {
		let applied = self.kv.0.lock().unwrap().applied;
		if applied != self.applied_seen {
			self.applied_seen = applied;
			if self.sweeper.is_some() {
				self.persisted = Some(self.snap());
			}
		}
	}

	fn restart(&mut self, truncate_at: Option<u32>) {
		self.sweeper = None;
		self.restarts += 1;
		{
			let mut g = self.kv.0.lock().unwrap();
			g.frozen = false;
			g.crash_in = None;
			g.fail_next = 0;
		}
		let key = format!(
			"{}/{}/{}",
			OUTPUT_SWEEPER_PERSISTENCE_PRIMARY_NAMESPACE, OUTPUT_SWEEPER_PERSISTENCE_SECONDARY_NAMESPACE, OUTPUT_SWEEPER_PERSISTENCE_KEY
		);
		let stored = self.kv.0.lock().unwrap().map.get(&key).cloned();
		let args = || (self.bcast.clone(), self.fee.clone(), None::<Arc<NoFilter>>, self.keys.clone(), self.change.clone(), self.kv.clone(), Arc::new(Sink));
		match stored {
			None => {
				self.out.bump("probe:restart_without_stored_state");
				if let Some(i) = self.acked.iter().next() {
					return self.fail(PROP, "C07-S1 durability", format!("output #{} was acknowledged but the store holds no sweeper state [anti-reorg]", i));
				}
				// nothing was ever stored: the node starts a fresh sweeper at its first block
				let b0 = &self.chain[0];
				self.sweeper = Some(OutputSweeperSync::new(
					BlockLocator::new(b0.hash, self.cfg.start_height),
					self.bcast.clone(),
					self.fee.clone(),
					None,
					self.keys.clone(),
					self.change.clone(),
					self.kv.clone(),
					Arc::new(Sink),
				));
				self.delay.clear();
				self.prev_tracked.clear();
			},
			Some(bytes) => {
				// truncated stored bytes must not decode into a different state
				if let Some(at) = truncate_at {
					if !bytes.is_empty() {
						let at = at as usize % bytes.len();
						self.out.bump("fault:truncated_state");
						self.out.bump("oracle:C12-f truncated");
						let r = catch(|| {
							let mut cur = io::Cursor::new(&bytes[..at]);
							<(BlockLocator, Sweeper)>::read(&mut cur, args()).map(|(b, s)| (b, s.tracked_spendable_outputs())).map_err(|e| format!("{:?}", e))
						});
						match r {
							Err(e) => return self.lib_panic("read of truncated sweeper state", e),
							Ok(Err(_)) => {},
							Ok(Ok((b, outs))) => {
								if self.persisted.as_ref().map(|p| p.best != b || p.outputs != outs).unwrap_or(true) {
									return self.fail("C12", "C12-f truncated", format!("{} of {} stored bytes decode into a different sweeper state", at, bytes.len()));
								}
							},
						}
					}
				}
				self.out.bump("oracle:C12-f sweeper-roundtrip");
				let r = catch(|| {
					let mut cur = io::Cursor::new(&bytes[..]);
					let r = <(BlockLocator, Sweeper)>::read(&mut cur, args());
					(r.map_err(|e| format!("{:?}", e)), cur.position() as usize)
				});
				let (best, sw) = match r {
					Err(e) => return self.lib_panic("read of the stored sweeper state", e),
					Ok((Err(e), _)) => return self.fail("C12", "C12-f sweeper-roundtrip", format!("the stored sweeper state does not decode: {}", e)),
					Ok((Ok(x), used)) => {
						if used != bytes.len() {
							return self.fail("C12", "C12-f sweeper-roundtrip", format!("read consumed {} of {} bytes", used, bytes.len()));
						}
						x
					},
				};
				let got = Snap { outputs: sw.tracked_spendable_outputs(), best: sw.current_best_block() };
				if best != got.best {
					return self.fail("C12", "C12-f sweeper-roundtrip", "returned best block differs from current_best_block()".into());
				}
				match &self.persisted {
					Some(p) if *p == got => {},
					Some(p) => {
						let d = p.outputs.iter().zip(got.outputs.iter()).find(|(a, b)| a != b);
						return self.fail("C12", "C12-f sweeper-roundtrip", format!(
							"restored state differs from the state last written: best {}@{} vs {}@{}, {} vs {} outputs, first difference {:?}",
							p.best.block_hash, p.best.height, got.best.block_hash, got.best.height, p.outputs.len(), got.outputs.len(), d.map(|(a, b)| (&a.status, &b.status))
						));
					},
					None => return self.fail("C12", "C12-f sweeper-roundtrip", "store holds a state although no write took effect".into()),
				}
				// the model follows what is in memory now
				let present: BTreeSet<usize> = got.outputs.iter().filter_map(|t| self.out_index(&t.descriptor.spendable_outpoint().into_bitcoin_outpoint())).collect();
				self.delay.retain(|i, _| present.contains(i));
				self.sweeper = Some(sw);
			},
		}
		self.resync();
		self.check_state(true);
	}

	fn mine(&mut self, txs: Vec<Transaction>) {
		let prev = self.chain.last().unwrap().hash;
		let b = self.make_block(prev, txs);
		self.all_blocks.insert(b.hash, (self.tip_height() + 1, prev));
		self.chain.push(b);
		let k = self.chain.len() - 1;
		self.connect_to_sweeper(k);
	}

	/// Of the listed broadcasts, those that can be mined together on the active chain.
	fn minable(&self, include: &[usize]) -> Vec<Transaction> {
		let log = self.bcast.0.lock().unwrap();
		let mut spent = self.spent_on_chain();
		let mut v = Vec::new();
		for i in include {
			if let Some(t) = log.get(*i) {
				if t.input.iter().all(|inp| !spent.contains(&inp.previous_output)) {
					for inp in t.input.iter() {
						spent.insert(inp.previous_output);
					}
					v.push(t.clone());
				}
			}
		}
		v
	}

	fn regenerate(&mut self) -> Option<bool> {
		let s = self.sweeper.as_ref().expect("sweeper");
		match catch(|| s.regenerate_and_broadcast_spend_if_necessary()) {
			Ok(r) => {
				if r.is_err() {
					self.out.bump("probe:regenerate_err");
				}
				Some(r.is_ok())
			},
			Err(e) => {
				self.lib_panic("regenerate_and_broadcast_spend_if_necessary", e);
				None
			},
		}
	}

	fn settle(&mut self) {
		{
			let mut g = self.kv.0.lock().unwrap();
			g.fail_next = 0;
			g.crash_in = None;
		}
		self.fee.0.store(253, Ordering::Relaxed);
		self.out.bump("oracle:C07-S4 liveness");
		let max_delay = self.delay.values().filter_map(|d| *d).max().unwrap_or(0);
		let rounds = max_delay.saturating_sub(self.tip_height()) + 4;
		for _ in 0..rounds {
			if self.dead {
				return;
			}
			let tracked = self.tracked();
			if tracked.iter().all(|t| matches!(t.status, OutputSpendStatus::PendingThresholdConfirmations { .. })) {
				break;
			}
			match self.regenerate() {
				None => return,
				Some(false) => return self.fail(PROP, "C07-S4 liveness", "regenerate_and_broadcast_spend_if_necessary fails although no fault is active".into()),
				Some(true) => {},
			}
			self.note_persist();
			self.check_broadcasts();
			// mine the latest spend of every unconfirmed output
			// (only what really was broadcast can be mined)
			let tracked = self.tracked();
			let mut include: Vec<usize> = Vec::new();
			{
				let log = self.bcast.0.lock().unwrap();
				for t in tracked.iter() {
					if !matches!(t.status, OutputSpendStatus::PendingThresholdConfirmations { .. }) {
						if let Some(k) = log.iter().rposition(|tx| t.is_spent_in(tx)) {
							if !include.contains(&k) {
								include.push(k);
							}
						}
					}
				}
			}
			include.sort_by(|a, b| b.cmp(a));
			let txs = self.minable(&include);
			self.mine(txs);
			self.check_state(false);
		}
		if self.dead {
			return;
		}
		let tracked = self.tracked();
		if let Some(t) = tracked.iter().find(|t| !matches!(t.status, OutputSpendStatus::PendingThresholdConfirmations { .. })) {
			return self.fail(PROP, "C07-S4 liveness", format!("after {} fault-free rounds of sweeping and mining an output is still {:?}", rounds, t.status));
		}
		let before = tracked.len();
		for _ in 0..PRUNE_DELAY_BLOCKS {
			self.mine(Vec::new());
			if self.dead {
				return;
			}
		}
		self.check_state(false);
		if self.dead {
			return;
		}
		let left = self.tracked();
		if !left.is_empty() {
			return self.fail(PROP, "C07-S4 liveness", format!("{} of {} outputs still tracked {} blocks after every spend confirmed", left.len(), before, PRUNE_DELAY_BLOCKS));
		}
		self.settled = true;
	}

	pub fn apply(&mut self, a: &Action) -> bool {
		if self.dead {
			return false;
		}
		let enabled = match a {
			Action::Track { outs, channel, counterparty, exclude_static, delay_until_height } => {
				// (an output already spent in the chain the sweeper has seen is not handed to it
				// again: the sweeper cannot learn about a spend that happened before it tracked)
				let spent = self.spent_on_chain();
				if outs.is_empty() || outs.iter().any(|i| *i >= self.descs.len() || spent.contains(&self.outpoints[*i])) {
					false
				} else {
					let before: BTreeSet<usize> = self.prev_tracked.clone();
					let d: Vec<SpendableOutputDescriptor> = outs.iter().map(|i| self.descs[*i].clone()).collect();
					let ch = channel.map(|c| ChannelId([c; 32]));
					let cp = if *counterparty { Some(self.keys.get_node_id(lightning::sign::Recipient::Node).expect("node id")) } else { None };
					let s = self.sweeper.as_ref().expect("sweeper");
					match catch(|| s.track_spendable_outputs(d, ch, cp, *exclude_static, *delay_until_height)) {
						Err(e) => self.lib_panic("track_spendable_outputs", e),
						Ok(r) => {
							self.hist = fnv_extend(self.hist, &[r.is_ok() as u8]);
							if !*exclude_static {
								for i in outs.iter() {
									if !before.contains(i) && !self.delay.contains_key(i) {
										self.delay.insert(*i, *delay_until_height);
									}
									if r.is_ok() {
										self.acked.insert(*i);
									}
								}
							}
							if r.is_err() {
								self.out.bump("probe:track_err");
							}
						},
					}
					true
				}
			},
			Action::ConnectBlock { include } => {
				let txs = self.minable(include);
				if !txs.is_empty() {
					self.out.bump("probe:sweep_mined");
				}
				self.mine(txs);
				true
			},
			Action::ConnectEmpty { n } => {
				for _ in 0..(*n).min(2 * PRUNE_DELAY_BLOCKS) {
					self.mine(Vec::new());
					if self.dead {
						break;
					}
				}
				true
			},
			Action::Reorg { depth, remine } => {
				let depth = *depth as usize;
				if depth == 0 || depth >= self.chain.len() {
					false
				} else {
					let removed: Vec<Block> = self.chain.split_off(self.chain.len() - depth);
					let fork = self.chain.last().unwrap();
					let fp = BlockLocator::new(fork.hash, self.tip_height());
					if removed.iter().any(|b| !b.txs.is_empty()) {
						self.out.bump("fault:reorg_unconfirms_sweep");
					}
					self.out.bump("fault:reorg");
					let s = self.sweeper.as_ref().expect("sweeper");
					if let Err(e) = catch(|| s.blocks_disconnected(fp)) {
						self.lib_panic("blocks_disconnected", e);
					} else {
						let mut txs: Vec<Transaction> = Vec::new();
						if *remine {
							for b in removed.iter() {
								txs.extend(b.txs.iter().cloned());
							}
						}
						for k in 0..depth {
							let t = if k == 0 { std::mem::take(&mut txs) } else { Vec::new() };
							self.mine(t);
							if self.dead {
								break;
							}
						}
					}
					true
				}
			},
			Action::FeeChange { sat_per_kw } => {
				self.fee.0.store((*sat_per_kw).max(253), Ordering::Relaxed);
				true
			},
			Action::KvFailNext { n, applies } => {
				let mut g = self.kv.0.lock().unwrap();
				g.fail_next = *n;
				g.fail_applies = *applies;
				true
			},
			Action::Crash { truncate_at } => {
				self.out.bump("fault:crash");
				self.restart(*truncate_at);
				true
			},
			Action::CrashAtOp { k, survives } => {
				if *k == 0 {
					false
				} else {
					self.kv.0.lock().unwrap().crash_in = Some((*k, *survives));
					true
				}
			},
			Action::Regenerate => {
				self.regenerate();
				true
			},
			Action::Settle => {
				self.settle();
				true
			},
		};
		if !enabled {
			return false;
		}
		self.step += 1;
		self.out.bump(&format!("action:{}", a.kind()));
		self.inter = fnv_extend(self.inter, a.kind().as_bytes());
		self.hist = fnv_extend(self.hist, serde_json::to_string(a).unwrap_or_default().as_bytes());
		self.trace.push(a.clone());
		if self.dead {
			return true;
		}
		let (errs, frozen) = {
			let g = self.kv.0.lock().unwrap();
			(g.errs, g.frozen)
		};
		if errs > *self.out.counters.get("fault:kv_write_error").unwrap_or(&0) {
			let n = errs - *self.out.counters.get("fault:kv_write_error").unwrap_or(&0);
			self.out.add("fault:kv_write_error", n);
		}
		if !matches!(a, Action::Crash { .. } | Action::Settle) {
			self.note_persist();
			self.check_broadcasts();
			if frozen && !self.dead {
				// the process died at a store operation during this action
				self.out.bump("fault:crash_at_store_op");
				self.restart(None);
			} else {
				self.check_state(false);
			}
		}
		true
	}

	pub fn finish(mut self, settle: bool) -> RunOutcome {
		if settle && !self.dead {
			self.apply(&Action::Settle);
		}
		let mut out = std::mem::take(&mut self.out);
		out.steps = self.step;
		out.sim_blocks = self.chain.len() as u64;
		out.sim_seconds = self.chain.len() as u64 * 600;
		out.history_fp = fnv_extend(self.hist, &(self.bcast.0.lock().unwrap().len() as u64).to_le_bytes());
		out.interleaving_fp = self.inter;
		out.nontrivial = self.settled && self.pruned > 0 && self.bcast.0.lock().unwrap().len() > 0;
		out.sample = Some(json!({
			"profile": "sweeper",
			"config": {"outputs": self.cfg.outs.len(), "start_height": self.cfg.start_height, "weights": self.cfg.weights},
			"restarts": self.restarts,
			"first_actions": self.trace.iter().take(30).collect::<Vec<_>>(),
		}));
		if !out.violations.is_empty() {
			out.replay = Some(json!({"sim": "blobsim", "profile": "sweeper", "config": self.cfg, "trace": self.trace}));
		}
		out
	}
}

// ---- generation ------------------------------------------------------------------------------

pub fn gen_config(rng: &mut Rng, tier: Tier) -> Config {
	let n = rng.range(1, 10) as usize;
	let outs = (0..n)
		.map(|_| OutCfg {
			value_sats: match rng.below(4) {
				0 => rng.range(300, 3_000),
				_ => rng.range(5_000, 2_000_000),
			},
			to_destination: rng.coin(),
			vout: rng.below(4) as u32,
		})
		.collect();
	let mut weights = [8, 12, 4, 2, 3, 3, 2, 10, 1];
	for w in weights.iter_mut() {
		if rng.chance(1, 6) {
			*w = 0;
		} else if rng.chance(1, 4) {
			*w *= 3;
		}
	}
	weights[0] = weights[0].max(4);
	weights[1] = weights[1].max(4);
	Config {
		key_seed: rng.next_u64(),
		start_height: rng.range(10, 900_000) as u32,
		outs,
		max_steps: match tier {
			Tier::Quick => rng.range(15, 70),
			Tier::Thorough => rng.range(30, 250),
		},
		weights,
		long_empty: rng.chance(1, 3),
	}
}

pub fn next_action(w: &World, rng: &mut Rng) -> Action {
	match rng.weighted(&w.cfg.weights) {
		0 => {
			let n = w.descs.len() as u64;
			let mut outs: Vec<usize> = Vec::new();
			for _ in 0..rng.range(1, 3) {
				let i = rng.below(n) as usize;
				if !outs.contains(&i) {
					outs.push(i);
				}
			}
			Action::Track {
				outs,
				channel: if rng.coin() { Some(rng.below(3) as u8) } else { None },
				counterparty: rng.coin(),
				exclude_static: rng.chance(1, 10),
				delay_until_height: if rng.chance(1, 3) { Some(w.tip_height() + rng.below(12) as u32) } else { None },
			}
		},
		1 => {
			let len = w.bcast.0.lock().unwrap().len();
			let mut include = Vec::new();
			if len > 0 && !rng.chance(1, 4) {
				// mostly the most recent broadcasts, sometimes an older (replaced) one
				include.push(len - 1);
				if rng.chance(1, 3) {
					include.insert(0, rng.below(len as u64) as usize);
				}
			}
			Action::ConnectBlock { include }
		},
		2 => Action::Reorg { depth: rng.range(1, 7) as u32, remine: rng.coin() },
		3 => Action::FeeChange { sat_per_kw: *rng.pick(&[253u32, 1_000, 5_000, 50_000, 2_000_000]) },
		4 => Action::KvFailNext { n: rng.range(1, 3) as u32, applies: rng.chance(1, 3) },
		5 => Action::Crash { truncate_at: if rng.chance(1, 3) { Some(rng.next_u64() as u32) } else { None } },
		6 => Action::CrashAtOp { k: rng.range(1, 3) as u32, survives: rng.coin() },
		7 => Action::Regenerate,
		_ => Action::ConnectEmpty {
			n: if w.cfg.long_empty && rng.chance(1, 2) { PRUNE_DELAY_BLOCKS - rng.below(8) as u32 + 2 } else { rng.range(2, 12) as u32 },
		},
	}
}
