//! The only source of randomness: xoshiro256** seeded through splitmix64.

#[derive(Clone, Debug)]
pub struct Rng {
	s: [u64; 4],
}

fn splitmix(x: &mut u64) -> u64 {
	*x = x.wrapping_add(0x9e3779b97f4a7c15);
	let mut z = *x;
	z = (z ^ (z >> 30)).wrapping_mul(0xbf58476d1ce4e5b9);
	z = (z ^ (z >> 27)).wrapping_mul(0x94d049bb133111eb);
	z ^ (z >> 31)
}

/// Derives the seed of run `i` of a batch from the batch seed.
pub fn mix(seed: u64, i: u64) -> u64 {
	let mut x = seed ^ i.wrapping_mul(0xd1342543de82ef95).rotate_left(17);
	let a = splitmix(&mut x);
	let b = splitmix(&mut x);
	a ^ b.rotate_left(32)
}

impl Rng {
	pub fn new(seed: u64) -> Rng {
		let mut x = seed;
		Rng { s: [splitmix(&mut x), splitmix(&mut x), splitmix(&mut x), splitmix(&mut x)] }
	}

	/// An independent sub-stream, so that adding draws to one concern (say, topology) does not
	/// shift every later decision of another (say, the schedule).
	pub fn fork(&self, label: &str) -> Rng {
		let mut h = crate::fnv(label.as_bytes());
		for w in self.s.iter() {
			h = crate::fnv_extend(h, &w.to_le_bytes());
		}
		Rng::new(h)
	}

	pub fn next_u64(&mut self) -> u64 {
		let r = self.s[1].wrapping_mul(5).rotate_left(7).wrapping_mul(9);
		let t = self.s[1] << 17;
		self.s[2] ^= self.s[0];
		self.s[3] ^= self.s[1];
		self.s[1] ^= self.s[2];
		self.s[0] ^= self.s[3];
		self.s[2] ^= t;
		self.s[3] = self.s[3].rotate_left(45);
		r
	}

	/// Uniform in `0..n` (n > 0).
	pub fn below(&mut self, n: u64) -> u64 {
		assert!(n > 0);
		// Multiply-shift; bias is < 2^-32 for the n used here.
		((self.next_u64() as u128 * n as u128) >> 64) as u64
	}

	pub fn range(&mut self, lo: u64, hi_incl: u64) -> u64 {
		assert!(hi_incl >= lo);
		lo + self.below(hi_incl - lo + 1)
	}

	pub fn chance(&mut self, num: u64, den: u64) -> bool {
		self.below(den) < num
	}

	pub fn coin(&mut self) -> bool {
		self.next_u64() & 1 == 1
	}

	pub fn pick<'a, T>(&mut self, xs: &'a [T]) -> &'a T {
		&xs[self.below(xs.len() as u64) as usize]
	}

	/// Index drawn proportionally to `weights` (at least one must be non-zero).
	pub fn weighted(&mut self, weights: &[u32]) -> usize {
		let total: u64 = weights.iter().map(|w| *w as u64).sum();
		assert!(total > 0);
		let mut x = self.below(total);
		for (i, w) in weights.iter().enumerate() {
			if x < *w as u64 {
				return i;
			}
			x -= *w as u64;
		}
		unreachable!()
	}

	pub fn bytes32(&mut self) -> [u8; 32] {
		let mut out = [0u8; 32];
		for i in 0..4 {
			out[i * 8..(i + 1) * 8].copy_from_slice(&self.next_u64().to_le_bytes());
		}
		out
	}

	pub fn fill(&mut self, buf: &mut [u8]) {
		for chunk in buf.chunks_mut(8) {
			let w = self.next_u64().to_le_bytes();
			chunk.copy_from_slice(&w[..chunk.len()]);
		}
	}

	pub fn shuffle<T>(&mut self, xs: &mut [T]) {
		for i in (1..xs.len()).rev() {
			let j = self.below(i as u64 + 1) as usize;
			xs.swap(i, j);
		}
	}
}
