//! profile `scorer`: a real `ProbabilisticScorer` over a small real `NetworkGraph`, driven by
//! payment/probe results, simulated time and graph changes; at every RoundTrip the scorer is
//! written, read back, compared, re-encoded and from then on kept in lock-step with the original.

use bitcoin::constants::ChainHash;
use bitcoin::network::Network;
use bitcoin::secp256k1::{PublicKey, Secp256k1, SecretKey};
use lightning::ln::msgs::{UnsignedChannelAnnouncement, UnsignedChannelUpdate};
use lightning::routing::gossip::{NetworkGraph, NodeId};
use lightning::routing::router::{CandidateRouteHop, Path, PublicHopCandidate, RouteHop};
use lightning::routing::scoring::{
	ChannelLiquidities, ChannelUsage, CombinedScorer, ProbabilisticScorer, ProbabilisticScoringDecayParameters,
	ProbabilisticScoringFeeParameters, ScoreLookUp, ScoreUpdate,
};
use lightning::routing::utxo::{UtxoLookup, UtxoResult};
use lightning::types::features::{ChannelFeatures, NodeFeatures};
use lightning::util::logger::{Logger, Record};
use lightning::util::ser::{Readable, ReadableArgs, Writeable};
use serde::{Deserialize, Serialize};
use serde_json::json;
use simcore::runner::catch;
use simcore::{fnv, fnv_extend, mix, Rng, RunOutcome, Tier};
use std::sync::Arc;
use std::time::Duration;

pub const PROP: &str = "C12";
pub const NETWORK: Network = Network::Testnet;
/// how many of the most recently used channels are queried at each comparison (all channels are
/// covered by the encoding comparisons)
const OBSERVED: usize = 10;

pub struct Sink;
impl Logger for Sink {
	fn log(&self, _record: Record) {}
}

type Graph = Arc<NetworkGraph<Arc<Sink>>>;
type Scorer = ProbabilisticScorer<Graph, Arc<Sink>>;

#[derive(Clone, Debug, PartialEq, Serialize, Deserialize)]
pub struct ChanCfg {
	pub scid: u64,
	pub a: usize,
	pub b: usize,
	/// on-chain capacity known to the graph (None: announced without a UTXO lookup)
	pub cap_sats: Option<u64>,
	pub hmax_msat: [u64; 2],
	pub base: [u32; 2],
	pub prop: [u32; 2],
	pub initial: bool,
}

#[derive(Clone, Debug, PartialEq, Serialize, Deserialize)]
pub struct Config {
	pub key_seed: u64,
	pub n_nodes: usize,
	pub chans: Vec<ChanCfg>,
	pub liq_half_life_secs: u64,
	pub hist_half_life_secs: u64,
	pub start_secs: u64,
	/// the copy replaces the original after a round trip (half of the runs)
	pub replace: bool,
	/// wrap the scorer under test in a `CombinedScorer` (external scores merged now and then)
	pub combined: bool,
	pub max_steps: u64,
	/// weights: fail, success, probe-fail, probe-success, time, graph, roundtrip, merge
	pub weights: [u32; 8],
	pub time_style: u8,
}

#[derive(Clone, Copy, Debug, PartialEq, Serialize, Deserialize)]
pub struct Hop {
	pub chan: usize,
	/// payment flows a -> b
	pub to_b: bool,
}

#[derive(Clone, Debug, PartialEq, Serialize, Deserialize)]
pub enum Fault {
	Truncate { at: u32 },
	BitFlip { bit: u32 },
	OddTlv,
	EvenTlv,
}

#[derive(Clone, Debug, PartialEq, Serialize, Deserialize)]
pub enum Action {
	PathFailed { hops: Vec<Hop>, amt_msat: u64, failed_scid: u64 },
	PathSuccessful { hops: Vec<Hop>, amt_msat: u64 },
	ProbeFailed { hops: Vec<Hop>, amt_msat: u64, failed_scid: u64 },
	ProbeSuccessful { hops: Vec<Hop>, amt_msat: u64 },
	/// the clock advances; `call`: `time_passed` is invoked with the new time
	TimePassed { secs: u64, call: bool },
	GraphRemove { chan: usize },
	GraphAdd { chan: usize },
	RoundTrip { faults: Vec<Fault> },
	/// CombinedScorer only: the local-only scores of a *copy made now* are merged in as external scores
	MergeExternal,
}

impl Action {
	fn kind(&self) -> &'static str {
		match self {
			Action::PathFailed { .. } => "PathFailed",
			Action::PathSuccessful { .. } => "PathSuccessful",
			Action::ProbeFailed { .. } => "ProbeFailed",
			Action::ProbeSuccessful { .. } => "ProbeSuccessful",
			Action::TimePassed { .. } => "TimePassed",
			Action::GraphRemove { .. } => "GraphRemove",
			Action::GraphAdd { .. } => "GraphAdd",
			Action::RoundTrip { .. } => "RoundTrip",
			Action::MergeExternal => "MergeExternal",
		}
	}
}

fn derive_sk(seed: u64, label: u64, idx: u64) -> SecretKey {
	let mut r = Rng::new(mix(seed ^ label.wrapping_mul(0x9e3779b97f4a7c15), idx));
	loop {
		if let Ok(sk) = SecretKey::from_slice(&r.bytes32()) {
			return sk;
		}
	}
}

/// Answers every lookup with the 2-of-2 output the announcement claims, with the configured value.
struct Lookup {
	txout: bitcoin::TxOut,
}
impl UtxoLookup for Lookup {
	fn get_utxo(&self, _c: &ChainHash, _scid: u64, _n: Arc<lightning::util::wakers::Notifier>) -> UtxoResult {
		UtxoResult::Sync(Ok(self.txout.clone()))
	}
}

fn funding_script(k1: &[u8; 33], k2: &[u8; 33]) -> bitcoin::ScriptBuf {
	use bitcoin::opcodes;
	use bitcoin::script::Builder;
	let (lo, hi) = if k1[..] < k2[..] { (k1, k2) } else { (k2, k1) };
	Builder::new()
		.push_opcode(opcodes::all::OP_PUSHNUM_2)
		.push_slice(lo)
		.push_slice(hi)
		.push_opcode(opcodes::all::OP_PUSHNUM_2)
		.push_opcode(opcodes::all::OP_CHECKMULTISIG)
		.into_script()
		.to_p2wsh()
}

/// One scorer under comparison. `Plain`: a ProbabilisticScorer. `Combined`: a CombinedScorer; what is
/// persisted (and therefore compared after a read) is its local-only scorer.
enum Subject {
	Plain(Scorer),
	Combined(CombinedScorer<Graph, Arc<Sink>>),
}

impl Subject {
	fn persisted(&self) -> &Scorer {
		match self {
			Subject::Plain(s) => s,
			Subject::Combined(c) => c.local_only_scorer(),
		}
	}
	fn upd(&mut self) -> &mut dyn ScoreUpdate {
		match self {
			Subject::Plain(s) => s,
			Subject::Combined(c) => c,
		}
	}
	fn encode(&self) -> Vec<u8> {
		match self {
			Subject::Plain(s) => s.encode(),
			Subject::Combined(c) => c.encode(),
		}
	}
}

#[derive(Clone, Debug, PartialEq)]
struct Obs {
	scid: u64,
	to_b: bool,
	range: Option<(u64, u64)>,
	hist: Option<([u16; 32], [u16; 32])>,
	probs: Vec<Option<u64>>,
	penalties: Vec<u64>,
	/// penalties that depend on the scorer's (unpersisted) notion of "now"
	diversity: Vec<u64>,
}

struct Follower {
	s: Subject,
	/// a ScoreUpdate call reached it since it was read (its `last_update_time` is then defined by
	/// the same call as the original's)
	synced: bool,
	born: u64,
}

pub struct World {
	pub cfg: Config,
	pub out: RunOutcome,
	pub step: u64,
	pub dead: bool,
	pub trace: Vec<Action>,
	graph: Graph,
	node_pk: Vec<PublicKey>,
	node_id: Vec<NodeId>,
	btc_pk: Vec<[[u8; 33]; 2]>,
	present: Vec<bool>,
	ever_added: Vec<bool>,
	now: Duration,
	main: Subject,
	followers: Vec<Follower>,
	params: Vec<ProbabilisticScoringFeeParameters>,
	div_params: ProbabilisticScoringFeeParameters,
	hist: u64,
	inter: u64,
	roundtrips: u64,
	updates: u64,
	/// channels most recently used by an action, most recent first
	touched: Vec<usize>,
}

fn decay_of(cfg: &Config) -> ProbabilisticScoringDecayParameters {
	ProbabilisticScoringDecayParameters {
		historical_no_updates_half_life: Duration::from_secs(cfg.hist_half_life_secs),
		liquidity_offset_half_life: Duration::from_secs(cfg.liq_half_life_secs),
	}
}

// ---- an independent reading of the container format (BigSize, outer TLV stream, map entries) ----

fn bigsize_read(b: &[u8], pos: &mut usize) -> Option<u64> {
	let f = *b.get(*pos)?;
	*pos += 1;
	let n = match f {
		0xfd => 2,
		0xfe => 4,
		0xff => 8,
		_ => return Some(f as u64),
	};
	let mut v = 0u64;
	for _ in 0..n {
		v = (v << 8) | *b.get(*pos)? as u64;
		*pos += 1;
	}
	Some(v)
}

fn bigsize_write(v: u64, out: &mut Vec<u8>) {
	if v < 0xfd {
		out.push(v as u8);
	} else if v <= 0xffff {
		out.push(0xfd);
		out.extend_from_slice(&(v as u16).to_be_bytes());
	} else if v <= 0xffff_ffff {
		out.push(0xfe);
		out.extend_from_slice(&(v as u32).to_be_bytes());
	} else {
		out.push(0xff);
		out.extend_from_slice(&v.to_be_bytes());
	}
}

/// Splits a scorer encoding into its per-channel entries (scid, entry bytes), sorted by scid.
/// `None` if the bytes do not have the documented shape.
pub fn canonical_entries(b: &[u8]) -> Option<Vec<(u64, Vec<u8>)>> {
	let mut p = 0usize;
	let total = bigsize_read(b, &mut p)? as usize;
	if p + total != b.len() {
		return None;
	}
	let t = bigsize_read(b, &mut p)?;
	if t != 0 {
		return None;
	}
	let l = bigsize_read(b, &mut p)? as usize;
	if p + l != b.len() {
		return None;
	}
	// collection length: u16, or 0xffff followed by u64 (len - 0xffff)
	let mut n = u16::from_be_bytes([*b.get(p)?, *b.get(p + 1)?]) as u64;
	p += 2;
	if n == 0xffff {
		let mut v = 0u64;
		for _ in 0..8 {
			v = (v << 8) | *b.get(p)? as u64;
			p += 1;
		}
		n = v.checked_add(0xffff)?;
	}
	let mut out = Vec::new();
	for _ in 0..n {
		if p + 8 > b.len() {
			return None;
		}
		let mut k = [0u8; 8];
		k.copy_from_slice(&b[p..p + 8]);
		let start = p;
		p += 8;
		let el = bigsize_read(b, &mut p)? as usize;
		if p + el > b.len() {
			return None;
		}
		p += el;
		out.push((u64::from_be_bytes(k), b[start..p].to_vec()));
	}
	if p != b.len() {
		return None;
	}
	out.sort();
	Some(out)
}

/// The encoding with one extra TLV record (type, value) appended to the outer stream.
fn with_extra_outer_tlv(b: &[u8], typ: u64, val: &[u8]) -> Option<Vec<u8>> {
	let mut p = 0usize;
	let total = bigsize_read(b, &mut p)? as usize;
	if p + total != b.len() {
		return None;
	}
	let mut body = b[p..].to_vec();
	bigsize_write(typ, &mut body);
	bigsize_write(val.len() as u64, &mut body);
	body.extend_from_slice(val);
	let mut out = Vec::new();
	bigsize_write(body.len() as u64, &mut out);
	out.extend_from_slice(&body);
	Some(out)
}

impl World {
	pub fn new(cfg: Config) -> World {
		let secp = Secp256k1::new();
		let node_sk: Vec<SecretKey> = (0..cfg.n_nodes).map(|i| derive_sk(cfg.key_seed, 1, i as u64)).collect();
		let node_pk: Vec<PublicKey> = node_sk.iter().map(|s| PublicKey::from_secret_key(&secp, s)).collect();
		let node_id: Vec<NodeId> = node_pk.iter().map(NodeId::from_pubkey).collect();
		let btc_pk = (0..cfg.chans.len())
			.map(|c| {
				[
					PublicKey::from_secret_key(&secp, &derive_sk(cfg.key_seed, 2, 2 * c as u64)).serialize(),
					PublicKey::from_secret_key(&secp, &derive_sk(cfg.key_seed, 2, 2 * c as u64 + 1)).serialize(),
				]
			})
			.collect();
		let now = Duration::from_secs(cfg.start_secs);
		lightning::util::verif::set_now(now);
		let logger = Arc::new(Sink);
		let graph: Graph = Arc::new(NetworkGraph::new(NETWORK, logger.clone()));
		let scorer = ProbabilisticScorer::new(decay_of(&cfg), graph.clone(), logger.clone());
		let main = if cfg.combined { Subject::Combined(CombinedScorer::new(scorer)) } else { Subject::Plain(scorer) };
		let mut p_hist = ProbabilisticScoringFeeParameters::default();
		p_hist.historical_liquidity_penalty_multiplier_msat = 10_000;
		p_hist.historical_liquidity_penalty_amount_multiplier_msat = 1_250;
		p_hist.linear_success_probability = true;
		p_hist.anti_probing_penalty_msat = 250;
		let mut p_live = ProbabilisticScoringFeeParameters::default();
		p_live.liquidity_penalty_multiplier_msat = 30_000;
		p_live.liquidity_penalty_amount_multiplier_msat = 192;
		p_live.historical_liquidity_penalty_multiplier_msat = 0;
		p_live.historical_liquidity_penalty_amount_multiplier_msat = 0;
		p_live.considered_impossible_penalty_msat = 1_0000_0000_000;
		let mut div_params = ProbabilisticScoringFeeParameters::default();
		div_params.probing_diversity_penalty_msat = 100_000;
		let n = cfg.chans.len();
		let mut w = World {
			out: RunOutcome::default(),
			step: 0,
			dead: false,
			trace: Vec::new(),
			graph,
			node_pk,
			node_id,
			btc_pk,
			present: vec![false; n],
			ever_added: vec![false; n],
			now,
			main,
			followers: Vec::new(),
			params: vec![ProbabilisticScoringFeeParameters::default(), p_hist, p_live],
			div_params,
			hist: fnv(b"blobsim/scorer"),
			inter: fnv(b"i"),
			roundtrips: 0,
			updates: 0,
			touched: Vec::new(),
			cfg,
		};
		for c in 0..n {
			if w.cfg.chans[c].initial {
				w.add_channel(c);
			}
		}
		w
	}

	fn add_channel(&mut self, c: usize) -> bool {
		let ch = self.cfg.chans[c].clone();
		self.ever_added[c] = true;
		let (ia, ib) = (self.node_id[ch.a], self.node_id[ch.b]);
		let (n1, n2) = if ia < ib { (ia, ib) } else { (ib, ia) };
		let ann = UnsignedChannelAnnouncement {
			features: ChannelFeatures::empty(),
			chain_hash: ChainHash::using_genesis_block(NETWORK),
			short_channel_id: ch.scid,
			node_id_1: n1,
			node_id_2: n2,
			bitcoin_key_1: NodeId::from_slice(&self.btc_pk[c][0]).unwrap(),
			bitcoin_key_2: NodeId::from_slice(&self.btc_pk[c][1]).unwrap(),
			excess_data: Vec::new(),
		};
		let graph = self.graph.clone();
		let btc = self.btc_pk[c];
		let ts = self.now.as_secs() as u32;
		let r = catch(|| {
			let res = match ch.cap_sats {
				Some(cap) => {
					let l = Lookup {
						txout: bitcoin::TxOut {
							value: bitcoin::Amount::from_sat(cap),
							script_pubkey: funding_script(&btc[0], &btc[1]),
						},
					};
					graph.update_channel_from_unsigned_announcement(&ann, &Some(&l))
				},
				None => graph.update_channel_from_unsigned_announcement::<&Lookup>(&ann, &None),
			};
			if res.is_err() {
				return false;
			}
			let mut ok = true;
			for dir in 0..2u8 {
				// direction bit 0: the update is from node_id_1
				let from_a = (dir == 0) == (ia < ib);
				let k = if from_a { 0 } else { 1 };
				let upd = UnsignedChannelUpdate {
					chain_hash: ChainHash::using_genesis_block(NETWORK),
					short_channel_id: ch.scid,
					timestamp: ts,
					message_flags: 1,
					channel_flags: dir,
					cltv_expiry_delta: 40,
					htlc_minimum_msat: 1,
					htlc_maximum_msat: ch.hmax_msat[k],
					fee_base_msat: ch.base[k],
					fee_proportional_millionths: ch.prop[k],
					excess_data: Vec::new(),
				};
				ok &= graph.update_channel_unsigned(&upd).is_ok();
			}
			ok
		});
		match r {
			Ok(ok) => {
				if ok {
					self.present[c] = true;
				} else {
					self.out.bump("probe:graph_add_rejected");
					// whatever part got in stays; treat as present iff the graph has it
					self.present[c] = self.graph.read_only().channels().get(&ch.scid).is_some();
				}
				ok
			},
			Err((m, l)) => {
				self.out.harness_errors.push(format!("graph construction panicked at {}: {}", l, m));
				self.dead = true;
				false
			},
		}
	}

	fn touch(&mut self, c: usize) {
		self.touched.retain(|t| *t != c);
		self.touched.insert(0, c);
		self.touched.truncate(OBSERVED * 2);
	}

	fn path_of(&self, hops: &[Hop], amt: u64) -> Option<Path> {
		if hops.is_empty() || hops.len() > 8 {
			return None;
		}
		let mut v = Vec::new();
		for (i, h) in hops.iter().enumerate() {
			let ch = self.cfg.chans.get(h.chan)?;
			let target = if h.to_b { ch.b } else { ch.a };
			let last = i + 1 == hops.len();
			v.push(RouteHop {
				pubkey: self.node_pk[target],
				node_features: NodeFeatures::empty(),
				short_channel_id: ch.scid,
				channel_features: ChannelFeatures::empty(),
				fee_msat: if last { amt } else { 0 },
				cltv_expiry_delta: 40,
				maybe_announced_channel: true,
			});
		}
		Some(Path { hops: v, blinded_tail: None })
	}

	fn observe(&self, s: &Scorer) -> Result<Vec<Obs>, (String, String)> {
		let graph = self.graph.clone();
		catch(|| {
			let mut v = Vec::new();
			let ro = graph.read_only();
			for (c, ch) in self.cfg.chans.iter().enumerate() {
				if !self.ever_added[c] || !(c == 0 || self.touched.iter().take(OBSERVED).any(|t| *t == c)) {
					continue;
				}
				for to_b in [true, false] {
					let target = self.node_id[if to_b { ch.b } else { ch.a }];
					let mut o = Obs {
						scid: ch.scid,
						to_b,
						range: s.estimated_channel_liquidity_range(ch.scid, &target),
						hist: s.historical_estimated_channel_liquidity_probabilities(ch.scid, &target),
						probs: Vec::new(),
						penalties: Vec::new(),
						diversity: Vec::new(),
					};
					let info = ro.channels().get(&ch.scid).and_then(|i| i.as_directed_to(&target));
					let cap = match &info {
						Some((d, _)) => d.effective_capacity().as_msat(),
						None => ch.hmax_msat[0],
					};
					let amts = [1_000u64, cap / 3, cap.saturating_sub(1), cap.saturating_add(1)];
					for a in amts.iter() {
						for p in self.params.iter() {
							o.probs.push(s.live_estimated_payment_success_probability(ch.scid, &target, *a, p).map(f64::to_bits));
							for fb in [false, true] {
								o.probs.push(
									s.historical_estimated_payment_success_probability(ch.scid, &target, *a, p, fb)
										.map(f64::to_bits),
								);
							}
						}
					}
					if let Some((d, _)) = info {
						let eff = d.effective_capacity();
						let cand = CandidateRouteHop::PublicHop(PublicHopCandidate { info: d, short_channel_id: ch.scid });
						for a in amts.iter() {
							for inflight in [0u64, cap / 8] {
								let usage = ChannelUsage {
									amount_msat: *a,
									inflight_htlc_msat: inflight,
									effective_capacity: eff,
								};
								for p in self.params.iter() {
									o.penalties.push(s.channel_penalty_msat(&cand, usage, p));
								}
								o.diversity.push(s.channel_penalty_msat(&cand, usage, &self.div_params));
							}
						}
					}
					v.push(o);
				}
			}
			v
		})
	}

	fn fail(&mut self, oracle: &str, msg: String) {
		self.out.violate(PROP, oracle, self.step, msg);
		self.dead = true;
	}

	fn lib_panic(&mut self, what: &str, e: (String, String)) {
		self.fail("C12-0 panic", format!("{} panicked at {}: {}", what, e.1, e.0));
	}

	/// Compares the observable state of two scorers; `with_div`: including the penalties that use
	/// the scorer's own notion of the current time.
	fn compare(&mut self, a: &[Obs], b: &[Obs], with_div: bool, oracle: &str, what: &str) -> bool {
		self.out.bump(&format!("oracle:{}", oracle));
		for (x, y) in a.iter().zip(b.iter()) {
			let mut xe = x.clone();
			let mut ye = y.clone();
			if !with_div {
				if xe.diversity != ye.diversity {
					self.out.bump("probe:diversity_penalty_differs_after_read");
				}
				xe.diversity.clear();
				ye.diversity.clear();
			}
			if xe != ye {
				let field = if xe.range != ye.range {
					format!("estimated_channel_liquidity_range {:?} vs {:?}", xe.range, ye.range)
				} else if xe.hist != ye.hist {
					format!("historical buckets {:?} vs {:?}", xe.hist, ye.hist)
				} else if xe.probs != ye.probs {
					let i = xe.probs.iter().zip(ye.probs.iter()).position(|(p, q)| p != q).unwrap_or(0);
					format!("success probability #{} {:?} vs {:?}", i, xe.probs.get(i), ye.probs.get(i))
				} else if xe.penalties != ye.penalties {
					let i = xe.penalties.iter().zip(ye.penalties.iter()).position(|(p, q)| p != q).unwrap_or(0);
					format!("channel_penalty_msat #{} {:?} vs {:?}", i, xe.penalties.get(i), ye.penalties.get(i))
				} else {
					format!("time-dependent penalty {:?} vs {:?}", xe.diversity, ye.diversity)
				};
				self.fail(oracle, format!("{}: scid {} to_b {}: {}", what, x.scid, x.to_b, field));
				return false;
			}
		}
		if a.len() != b.len() {
			self.fail(oracle, format!("{}: {} vs {} observed directions", what, a.len(), b.len()));
			return false;
		}
		true
	}

	fn read_scorer(&self, bytes: &[u8]) -> Result<Result<(Scorer, usize), String>, (String, String)> {
		let args = (decay_of(&self.cfg), self.graph.clone(), Arc::new(Sink));
		catch(move || {
			let mut cur = lightning::io::Cursor::new(bytes);
			match <Scorer as ReadableArgs<_>>::read(&mut cur, args) {
				Ok(s) => Ok((s, cur.position() as usize)),
				Err(e) => Err(format!("{:?}", e)),
			}
		})
	}

	fn wrap(&self, s: Scorer) -> Subject {
		if self.cfg.combined {
			Subject::Combined(CombinedScorer::new(s))
		} else {
			Subject::Plain(s)
		}
	}

	/// lock-step oracle: every follower must still look like the original.
	fn check_followers(&mut self) -> bool {
		let main_obs = match self.observe(self.main.persisted()) {
			Ok(o) => o,
			Err(e) => {
				self.lib_panic("observing the original", e);
				return false;
			},
		};
		let main_enc = match catch(|| self.main.encode()) {
			Ok(b) => canonical_entries(&b),
			Err(e) => {
				self.lib_panic("write", e);
				return false;
			},
		};
		for i in 0..self.followers.len() {
			match catch(|| self.followers[i].s.encode()) {
				Ok(b) => {
					let fe = canonical_entries(&b);
					if fe != main_enc {
						let born = self.followers[i].born;
						let d = match (&main_enc, &fe) {
							(Some(a), Some(b)) => a
								.iter()
								.zip(b.iter())
								.find(|(x, y)| x != y)
								.map(|(x, y)| format!("scid {}: {} vs scid {}: {}", x.0, simcore::hex(&x.1), y.0, simcore::hex(&y.1)))
								.unwrap_or_else(|| format!("{} vs {} entries", a.len(), b.len())),
							_ => "unparseable".into(),
						};
						self.out.bump("oracle:C12-e4 lockstep");
						self.fail("C12-e4 lockstep", format!("copy read at step {} diverged: encodings differ: {}", born, d));
						return false;
					}
				},
				Err(e) => {
					self.lib_panic("write of a copy", e);
					return false;
				},
			}
			let fo = match self.observe(self.followers[i].s.persisted()) {
				Ok(o) => o,
				Err(e) => {
					self.lib_panic("observing a copy", e);
					return false;
				},
			};
			let (synced, born) = (self.followers[i].synced, self.followers[i].born);
			if !self.compare(&main_obs, &fo, synced, "C12-e4 lockstep", &format!("copy read at step {} diverged", born)) {
				return false;
			}
		}
		for o in main_obs.iter() {
			let mut h = self.hist;
			if let Some(r) = o.range {
				h = fnv_extend(fnv_extend(h, &r.0.to_le_bytes()), &r.1.to_le_bytes());
			}
			if let Some(b) = o.hist {
				for x in b.0.iter().chain(b.1.iter()) {
					h = fnv_extend(h, &x.to_le_bytes());
				}
			}
			for p in o.probs.iter() {
				h = fnv_extend(h, &p.unwrap_or(7).to_le_bytes());
			}
			for p in o.penalties.iter().chain(o.diversity.iter()) {
				h = fnv_extend(h, &p.to_le_bytes());
			}
			self.hist = h;
		}
		if self.out.state_fps.len() < 4096 {
			let mut h = fnv(b"s");
			for o in main_obs.iter() {
				// abstract state: which directions have bounds / history
				h = fnv_extend(h, &[o.range.map(|r| (r.0 > 0) as u8 + 2 * ((r.1 > 0) as u8)).unwrap_or(9)]);
				h = fnv_extend(h, &[o.hist.map(|b| b.0.iter().filter(|x| **x > 0).count() as u8).unwrap_or(99)]);
			}
			self.out.state_fps.push(h);
		}
		true
	}

	fn round_trip(&mut self, faults: &[Fault]) {
		if !self.check_followers() {
			return;
		}
		self.roundtrips += 1;
		let bytes = match catch(|| self.main.encode()) {
			Ok(b) => b,
			Err(e) => return self.lib_panic("write", e),
		};
		self.hist = fnv_extend(self.hist, &bytes.len().to_le_bytes());
		let entries = canonical_entries(&bytes);
		match &entries {
			Some(es) => {
				let mut h = self.hist;
				for (_, e) in es.iter() {
					h = fnv_extend(h, e);
				}
				self.hist = h;
				if es.len() > 0 {
					self.out.bump("probe:nonempty_encoding");
				}
				let in_graph = self.graph.read_only();
				if es.iter().any(|(scid, _)| in_graph.channels().get(scid).is_none()) {
					self.out.bump("probe:entry_for_channel_not_in_graph");
				}
			},
			None => {
				return self.fail("C12-e1 read", "the encoding does not have the documented container shape".into());
			},
		}
		// 1. read succeeds and consumes exactly the bytes
		self.out.bump("oracle:C12-e1 read");
		let copy = match self.read_scorer(&bytes) {
			Err(e) => return self.lib_panic("read", e),
			Ok(Err(e)) => return self.fail("C12-e1 read", format!("reading a fresh encoding ({} bytes) failed: {}", bytes.len(), e)),
			Ok(Ok((s, used))) => {
				if used != bytes.len() {
					return self.fail("C12-e1 read", format!("read consumed {} of {} bytes", used, bytes.len()));
				}
				s
			},
		};
		// 2. observable state equal
		let main_obs = match self.observe(self.main.persisted()) {
			Ok(o) => o,
			Err(e) => return self.lib_panic("observing the original", e),
		};
		let copy_obs = match self.observe(&copy) {
			Ok(o) => o,
			Err(e) => return self.lib_panic("observing the copy", e),
		};
		if !self.compare(&main_obs, &copy_obs, false, "C12-e2 observable", "copy differs right after read") {
			return;
		}
		// 3. re-serialising the copy gives the same encoding
		self.out.bump("oracle:C12-e3 reencode");
		let bytes2 = match catch(|| copy.encode()) {
			Ok(b) => b,
			Err(e) => return self.lib_panic("write of the copy", e),
		};
		if bytes2 != bytes {
			let e2 = canonical_entries(&bytes2);
			if e2.is_some() && e2 == entries {
				self.out.bump("probe:reencode_entry_order_differs");
			} else {
				let detail = match (&entries, &e2) {
					(Some(a), Some(b)) => {
						let d = a.iter().zip(b.iter()).find(|(x, y)| x != y);
						match d {
							Some((x, y)) => format!("scid {}: {} vs scid {}: {}", x.0, simcore::hex(&x.1), y.0, simcore::hex(&y.1)),
							None => format!("{} vs {} entries", a.len(), b.len()),
						}
					},
					_ => "unparseable".to_string(),
				};
				return self.fail("C12-e3 reencode", format!("re-encoding the copy gives different bytes: {}", detail));
			}
		}
		// 5. faulty readers
		for f in faults.iter() {
			self.faulty_read(f, &bytes, &main_obs);
			if self.dead {
				return;
			}
		}
		// 4. from now on the copy runs in lock-step
		let sub = self.wrap(copy);
		if self.cfg.replace && !self.cfg.combined {
			// the copy becomes the scorer in use; the old original follows (same comparison, swapped)
			let old = std::mem::replace(&mut self.main, sub);
			// the scorer in use now has the read-back notion of "now": nobody is in sync with it
			for f in self.followers.iter_mut() {
				f.synced = false;
			}
			self.followers.push(Follower { s: old, synced: false, born: self.step });
		} else {
			self.followers.push(Follower { s: sub, synced: false, born: self.step });
		}
		if self.followers.len() > 2 {
			self.followers.remove(0);
		}
	}

	fn faulty_read(&mut self, f: &Fault, bytes: &[u8], main_obs: &[Obs]) {
		match f {
			Fault::Truncate { at } => {
				if bytes.is_empty() {
					return;
				}
				let at = (*at as usize) % bytes.len();
				self.out.bump("fault:truncate");
				self.out.bump("oracle:C12-e5 truncated");
				match self.read_scorer(&bytes[..at]) {
					Err(e) => self.lib_panic("read of truncated bytes", e),
					Ok(Err(_)) => {},
					Ok(Ok((s, _))) => {
						let o = match self.observe(&s) {
							Ok(o) => o,
							Err(e) => return self.lib_panic("observing", e),
						};
						let shown = format!("read of {} of {} bytes succeeded with a different state", at, bytes.len());
						self.out.bump("probe:truncated_read_ok");
						self.compare(main_obs, &o, false, "C12-e5 truncated", &shown);
					},
				}
			},
			Fault::BitFlip { bit } => {
				if bytes.is_empty() {
					return;
				}
				let bit = (*bit as usize) % (bytes.len() * 8);
				let mut b = bytes.to_vec();
				b[bit / 8] ^= 1 << (bit % 8);
				self.out.bump("fault:bitflip");
				self.out.bump("oracle:C12-e5 bitflip");
				match self.read_scorer(&b) {
					Err(e) => self.lib_panic("read of bit-flipped bytes", e),
					Ok(Err(_)) => self.out.bump("probe:bitflip_rejected"),
					Ok(Ok(_)) => self.out.bump("probe:bitflip_accepted"),
				}
			},
			Fault::OddTlv | Fault::EvenTlv => {
				let odd = matches!(f, Fault::OddTlv);
				let b = match with_extra_outer_tlv(bytes, if odd { 3 } else { 2 }, &[0xaa, 0x55, 0x01]) {
					Some(b) => b,
					None => return,
				};
				self.out.bump(if odd { "fault:odd_tlv" } else { "fault:even_tlv" });
				self.out.bump("oracle:C12-e5 unknown-tlv");
				match self.read_scorer(&b) {
					Err(e) => self.lib_panic("read with an unknown TLV", e),
					Ok(Err(e)) => {
						if odd {
							self.fail("C12-e5 unknown-tlv", format!("an unknown odd TLV in the outer stream was rejected: {}", e));
						}
					},
					Ok(Ok((s, used))) => {
						if !odd {
							return self.fail("C12-e5 unknown-tlv", "an unknown even TLV in the outer stream was accepted".into());
						}
						if used != b.len() {
							return self.fail("C12-e5 unknown-tlv", format!("read consumed {} of {} bytes", used, b.len()));
						}
						let o = match self.observe(&s) {
							Ok(o) => o,
							Err(e) => return self.lib_panic("observing", e),
						};
						self.compare(main_obs, &o, false, "C12-e5 unknown-tlv", "unknown odd TLV changed the result");
					},
				}
			},
		}
	}

	fn update_all(&mut self, what: &str, f: &dyn Fn(&mut dyn ScoreUpdate)) {
		let r = catch(|| f(self.main.upd()));
		if let Err(e) = r {
			return self.lib_panic(what, e);
		}
		for i in 0..self.followers.len() {
			let r = catch(|| f(self.followers[i].s.upd()));
			if let Err(e) = r {
				return self.lib_panic(&format!("{} (on a copy)", what), e);
			}
			self.followers[i].synced = true;
		}
		self.updates += 1;
	}

	/// Executes one action; returns false if it was not enabled (skipped).
	pub fn apply(&mut self, a: &Action) -> bool {
		if self.dead {
			return false;
		}
		let now = self.now;
		let enabled = match a {
			Action::PathFailed { hops, amt_msat, failed_scid } | Action::ProbeFailed { hops, amt_msat, failed_scid } => {
				match self.path_of(hops, *amt_msat) {
					Some(p) => {
						let probe = matches!(a, Action::ProbeFailed { .. });
						let scid = *failed_scid;
						if hops.iter().any(|h| !self.present[h.chan]) {
							self.out.bump("probe:path_over_removed_channel");
						}
						for h in hops.iter() {
							self.touch(h.chan);
						}
						self.update_all(a.kind(), &|s| {
							if probe {
								s.probe_failed(&p, scid, now)
							} else {
								s.payment_path_failed(&p, scid, now)
							}
						});
						true
					},
					None => false,
				}
			},
			Action::PathSuccessful { hops, amt_msat } | Action::ProbeSuccessful { hops, amt_msat } => {
				match self.path_of(hops, *amt_msat) {
					Some(p) => {
						for h in hops.iter() {
							self.touch(h.chan);
						}
						let probe = matches!(a, Action::ProbeSuccessful { .. });
						self.update_all(a.kind(), &|s| {
							if probe {
								s.probe_successful(&p, now)
							} else {
								s.payment_path_successful(&p, now)
							}
						});
						true
					},
					None => false,
				}
			},
			Action::TimePassed { secs, call } => {
				self.now = self.now + Duration::from_secs((*secs).min(20 * 365 * 86400));
				lightning::util::verif::set_now(self.now);
				let now = self.now;
				if *call {
					self.update_all("time_passed", &|s| s.time_passed(now));
				}
				true
			},
			Action::GraphRemove { chan } => {
				if *chan < self.present.len() && self.present[*chan] {
					let scid = self.cfg.chans[*chan].scid;
					let g = self.graph.clone();
					if let Err(e) = catch(|| g.channel_failed_permanent(scid)) {
						self.out.harness_errors.push(format!("channel_failed_permanent panicked: {:?}", e));
						self.dead = true;
					}
					self.present[*chan] = false;
					self.touch(*chan);
					true
				} else {
					false
				}
			},
			Action::GraphAdd { chan } => {
				if *chan < self.present.len() && !self.ever_added[*chan] {
					self.add_channel(*chan);
					self.touch(*chan);
					true
				} else {
					false
				}
			},
			Action::RoundTrip { faults } => {
				self.round_trip(faults);
				true
			},
			Action::MergeExternal => {
				if !self.cfg.combined {
					false
				} else {
					self.merge_external();
					true
				}
			},
		};
		if enabled {
			self.step += 1;
			self.out.bump(&format!("action:{}", a.kind()));
			self.inter = fnv_extend(self.inter, a.kind().as_bytes());
			self.hist = fnv_extend(self.hist, serde_json::to_string(a).unwrap_or_default().as_bytes());
			self.trace.push(a.clone());
		}
		enabled
	}

	/// External scores = the ChannelLiquidities round trip of the current local scores (the
	/// `ChannelLiquidities` Writeable/Readable pair), merged into every CombinedScorer.
	fn merge_external(&mut self) {
		let bytes = match catch(|| self.main.persisted().scores().encode()) {
			Ok(b) => b,
			Err(e) => return self.lib_panic("ChannelLiquidities::write", e),
		};
		self.out.bump("oracle:C12-e1 read");
		let now = self.now;
		let mut subs: Vec<&mut Subject> = vec![&mut self.main];
		for f in self.followers.iter_mut() {
			f.synced = true;
			subs.push(&mut f.s);
		}
		let mut err = None;
		for s in subs {
			let r = catch(|| {
				let mut cur = lightning::io::Cursor::new(&bytes[..]);
				let ext = <ChannelLiquidities as Readable>::read(&mut cur).map_err(|e| format!("{:?}", e))?;
				if cur.position() as usize != bytes.len() {
					return Err("ChannelLiquidities::read left bytes unread".to_string());
				}
				if let Subject::Combined(c) = s {
					c.merge(ext, now);
				}
				Ok(())
			});
			match r {
				Err(e) => {
					err = Some(format!("merge panicked at {}: {}", e.1, e.0));
					break;
				},
				Ok(Err(e)) => {
					err = Some(e);
					break;
				},
				Ok(Ok(())) => {},
			}
		}
		if let Some(e) = err {
			if e.contains("panicked") {
				self.fail("C12-0 panic", e);
			} else {
				self.fail("C12-e1 read", format!("ChannelLiquidities round trip: {}", e));
			}
		}
	}

	pub fn finish(mut self) -> RunOutcome {
		if !self.dead {
			// final comparison, as at a round trip
			self.round_trip(&[]);
		}
		let mut out = std::mem::take(&mut self.out);
		out.steps = self.step;
		out.sim_seconds = self.now.as_secs().saturating_sub(self.cfg.start_secs);
		out.history_fp = self.hist;
		out.interleaving_fp = self.inter;
		out.nontrivial = self.roundtrips >= 2 && self.updates >= 3 && out.counters.get("probe:nonempty_encoding").is_some();
		out.sample = Some(json!({
			"profile": "scorer",
			"config": {
				"nodes": self.cfg.n_nodes, "channels": self.cfg.chans.len(),
				"liq_half_life_secs": self.cfg.liq_half_life_secs, "hist_half_life_secs": self.cfg.hist_half_life_secs,
				"replace": self.cfg.replace, "combined": self.cfg.combined,
			},
			"first_actions": self.trace.iter().take(30).collect::<Vec<_>>(),
		}));
		if !out.violations.is_empty() {
			out.replay = Some(json!({"sim": "blobsim", "profile": "scorer", "config": self.cfg, "trace": self.trace}));
		}
		out
	}
}

// ---- generation ------------------------------------------------------------------------------

pub fn gen_config(rng: &mut Rng, tier: Tier) -> Config {
	let n_nodes = rng.range(8, 25) as usize;
	let n_ch = rng.range(10, 50) as usize;
	let mut chans = Vec::new();
	for i in 0..n_ch {
		let a = rng.below(n_nodes as u64) as usize;
		let mut b = rng.below(n_nodes as u64) as usize;
		if b == a {
			b = (a + 1) % n_nodes;
		}
		let cap_sats = match rng.below(4) {
			0 => None,
			1 => Some(rng.range(1_000, 20_000)),
			_ => Some(rng.range(20_000, 16_000_000)),
		};
		let cap_msat = cap_sats.unwrap_or(rng.range(10_000, 5_000_000)) * 1000;
		let mut hmax = [0u64; 2];
		for k in 0..2 {
			hmax[k] = match rng.below(3) {
				0 => cap_msat,
				1 => cap_msat / 2 + rng.below(cap_msat / 2 + 1),
				_ => 1 + rng.below(cap_msat),
			};
		}
		chans.push(ChanCfg {
			scid: ((600_000 + i as u64) << 40) | ((1 + rng.below(2000)) << 16) | rng.below(3),
			a,
			b,
			cap_sats,
			hmax_msat: hmax,
			base: [rng.below(5000) as u32, rng.below(5000) as u32],
			prop: [rng.below(3000) as u32, rng.below(3000) as u32],
			initial: !rng.chance(1, 5),
		});
	}
	let (liq, hist) = match rng.below(5) {
		0 | 1 => (30 * 60, 14 * 86400),
		2 => (rng.range(1, 120), rng.range(60, 7200)),
		3 => (30 * 60, 0),
		_ => (0, rng.range(3600, 30 * 86400)),
	};
	let max_steps = match tier {
		Tier::Quick => rng.range(20, 90),
		Tier::Thorough => rng.range(40, 400),
	};
	let mut weights = [10, 10, 6, 6, 8, 3, 5, 0];
	for w in weights.iter_mut() {
		if rng.chance(1, 6) {
			*w = 0;
		} else if rng.chance(1, 4) {
			*w *= 3;
		}
	}
	weights[6] = weights[6].max(3);
	let combined = rng.chance(1, 4);
	weights[7] = if combined { 3 } else { 0 };
	if weights[..4].iter().all(|w| *w == 0) {
		weights[0] = 10;
	}
	Config {
		key_seed: rng.next_u64(),
		n_nodes,
		chans,
		liq_half_life_secs: liq,
		hist_half_life_secs: hist,
		start_secs: 1_700_000_000 + rng.below(100_000_000),
		replace: rng.coin(),
		combined,
		max_steps,
		weights,
		time_style: rng.below(3) as u8,
	}
}

fn gen_path(w: &World, rng: &mut Rng) -> (Vec<Hop>, u64) {
	let n = w.cfg.chans.len();
	let len = rng.range(1, 6) as usize;
	let mut hops: Vec<Hop> = Vec::new();
	// a simple walk: prefer channels touching the current node that are present
	let first = rng.below(n as u64) as usize;
	let to_b = rng.coin();
	hops.push(Hop { chan: first, to_b });
	let mut cur = if to_b { w.cfg.chans[first].b } else { w.cfg.chans[first].a };
	let mut visited = vec![if to_b { w.cfg.chans[first].a } else { w.cfg.chans[first].b }, cur];
	while hops.len() < len {
		let cands: Vec<(usize, bool)> = w
			.cfg
			.chans
			.iter()
			.enumerate()
			.filter_map(|(i, c)| {
				if hops.iter().any(|h| h.chan == i) {
					None
				} else if c.a == cur && !visited.contains(&c.b) {
					Some((i, true))
				} else if c.b == cur && !visited.contains(&c.a) {
					Some((i, false))
				} else {
					None
				}
			})
			.collect();
		if cands.is_empty() {
			break;
		}
		let (i, tb) = *rng.pick(&cands);
		hops.push(Hop { chan: i, to_b: tb });
		cur = if tb { w.cfg.chans[i].b } else { w.cfg.chans[i].a };
		visited.push(cur);
	}
	let c = &w.cfg.chans[hops[rng.below(hops.len() as u64) as usize].chan];
	let cap = c.cap_sats.map(|s| s * 1000).unwrap_or(c.hmax_msat[0]).max(2);
	let amt = match rng.below(8) {
		0 => 1_000,
		1 => cap + rng.below(cap),
		2 => cap,
		3 => cap - 1,
		4 => rng.range(1, 1000),
		_ => 1_000 + rng.below(cap),
	};
	(hops, amt)
}

pub fn next_action(w: &World, rng: &mut Rng) -> Action {
	let k = rng.weighted(&w.cfg.weights);
	match k {
		0 | 2 => {
			let (hops, amt_msat) = gen_path(w, rng);
			let failed_scid = match rng.below(10) {
				0 => 42,
				1 => u64::MAX,
				_ => w.cfg.chans[hops[rng.below(hops.len() as u64) as usize].chan].scid,
			};
			if k == 0 {
				Action::PathFailed { hops, amt_msat, failed_scid }
			} else {
				Action::ProbeFailed { hops, amt_msat, failed_scid }
			}
		},
		1 | 3 => {
			let (hops, amt_msat) = gen_path(w, rng);
			if k == 1 {
				Action::PathSuccessful { hops, amt_msat }
			} else {
				Action::ProbeSuccessful { hops, amt_msat }
			}
		},
		4 => {
			let secs = match (w.cfg.time_style, rng.below(6)) {
				(_, 0) => rng.range(0, 5),
				(0, _) => rng.range(1, 3600),
				(1, _) => rng.range(600, 3 * 86400),
				(_, 1) => rng.range(86400, 120 * 86400),
				(_, 2) => rng.range(200 * 86400, 400 * 86400),
				_ => rng.range(60, 14 * 86400),
			};
			Action::TimePassed { secs, call: !rng.chance(1, 4) }
		},
		5 => {
			let c = rng.below(w.cfg.chans.len() as u64) as usize;
			if w.present[c] {
				Action::GraphRemove { chan: c }
			} else {
				Action::GraphAdd { chan: c }
			}
		},
		6 => {
			let mut faults = Vec::new();
			if rng.chance(1, 3) {
				for _ in 0..rng.range(1, 3) {
					faults.push(match rng.below(6) {
						0 | 1 => Fault::Truncate { at: rng.next_u64() as u32 },
						2 | 3 => Fault::BitFlip { bit: rng.next_u64() as u32 },
						4 => Fault::OddTlv,
						_ => Fault::EvenTlv,
					});
				}
			}
			Action::RoundTrip { faults }
		},
		_ => Action::MergeExternal,
	}
}
