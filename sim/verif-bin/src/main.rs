//! `verif`: the single entry point used by /verif/check.
//!   verif run <property> <quick|thorough>
//!   verif replay <file>
//!   verif worker <sim> <profile> <tier> <seed> <w> <nw> <runs>     (internal)
//!   verif one <sim> <profile> <tier> <run-seed>                     (debugging)

mod plans;

// Counting allocator used by codecsim's bounded-allocation oracle (C13-3); it only counts.
#[global_allocator]
static ALLOC: codecsim::allocguard::Guard = codecsim::allocguard::Guard;

use simcore::runner::{replay_main, run_check, worker_main};
use simcore::{Sim, Tier};

fn lookup(name: &str) -> Option<Box<dyn Sim>> {
	match name {
		"lnsim" => Some(Box::new(lnsim::LnSim)),
		"transportsim" => Some(Box::new(transportsim::TransportSim)),
		"codecsim" => Some(Box::new(codecsim::CodecSim)),
		"gossipsim" => Some(Box::new(gossipsim::GossipSim)),
		"persistsim" => Some(Box::new(persistsim::PersistSim)),
		"blocksyncsim" => Some(Box::new(blocksyncsim::BlockSyncSim)),
		"blobsim" => Some(Box::new(blobsim::BlobSim)),
		_ => None,
	}
}

fn main() {
	let args: Vec<String> = std::env::args().collect();
	let verif_dir = std::env::var("VERIF_DIR").unwrap_or_else(|_| "/verif".to_string());
	let code = match args.get(1).map(|s| s.as_str()) {
		Some("run") => {
			let prop = args.get(2).cloned().unwrap_or_default();
			let tier = args
				.get(3)
				.cloned()
				.or_else(|| std::env::var("VERIF_TIER").ok())
				.and_then(|s| Tier::parse(&s))
				.unwrap_or(Tier::Quick);
			let seed: u64 =
				std::env::var("VERIF_SEED").ok().and_then(|s| s.parse().ok()).unwrap_or(1);
			match plans::plan_for(&prop, tier, seed, &verif_dir) {
				Some(plan) => run_check(&plan, &lookup, &verif_dir),
				None => {
					println!("HARNESS-ERROR no check registered for property {:?}", prop);
					2
				},
			}
		},
		Some("replay") => match args.get(2) {
			Some(p) => {
				// replay files of simulations that live in another workspace are handed over
				let sim = std::fs::read_to_string(p)
					.ok()
					.and_then(|s| serde_json::from_str::<serde_json::Value>(&s).ok())
					.and_then(|v| v["replay"]["sim"].as_str().map(|s| s.to_string()))
					.unwrap_or_default();
				match plans::external_exe(&sim, &verif_dir) {
					Some(exe) => std::process::Command::new(exe)
						.arg("replay")
						.arg(p)
						.status()
						.ok()
						.and_then(|st| st.code())
						.unwrap_or(2),
					None => replay_main(p, &lookup),
				}
			},
			None => 2,
		},
		Some("shrinkfile") => match args.get(2) {
			Some(p) => simcore::runner::shrinkfile_main(p, &lookup),
			None => 2,
		},
		Some("worker") => {
			let sim = lookup(&args[2]).expect("sim");
			let tier = Tier::parse(&args[4]).expect("tier");
			worker_main(
				sim.as_ref(),
				&args[3],
				tier,
				args[5].parse().unwrap(),
				args[6].parse().unwrap(),
				args[7].parse().unwrap(),
				args[8].parse().unwrap(),
			);
			0
		},
		Some("one") => {
			simcore::runner::install_panic_hook();
			let sim = lookup(&args[2]).expect("sim");
			let tier = Tier::parse(&args[4]).expect("tier");
			let seed: u64 = args[5].parse().unwrap();
			let out = simcore::runner::run_isolated(|| sim.run(&args[3], seed, tier));
			println!(
				"seed {} steps {} nontrivial {} history_fp {:016x} violations {:?} harness {:?}",
				seed, out.steps, out.nontrivial, out.history_fp, out.violations, out.harness_errors
			);
			if std::env::var("VERIF_COUNTERS").is_ok() {
				for (k, v) in out.counters.iter() {
					println!("  {} = {}", k, v);
				}
			}
			if out.violations.is_empty() { 0 } else { 1 }
		},
		_ => {
			eprintln!("usage: verif run <property> <quick|thorough> | replay <file>");
			2
		},
	};
	std::process::exit(code);
}
