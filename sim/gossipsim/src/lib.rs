//! gossipsim: deterministic simulation deciding property C17 — "the network graph holds only
//! authentic, current gossip, whatever the order" — against the real
//! `lightning::routing::gossip::{NetworkGraph, P2PGossipSync}` and `routing::utxo` code.
//! See /verif/DESIGN.md §5 C17.

pub mod model;
pub mod sched;
pub mod universe;
pub mod world;

use serde_json::Value;
use simcore::{Rng, RunOutcome, Sim, Tier};
use world::{Action, Config, World};

pub struct GossipSim;

pub const PROFILES: &[&str] = &["mixed", "chaos", "order"];

fn run_world(mut wd: World, rng: Option<Rng>, trace: Option<Vec<Action>>, seed: u64) -> RunOutcome {
	wd.out.seed = seed;
	match trace {
		Some(actions) => {
			// (only for traces of complete runs: a run that stopped at a violation has no Finish and
			// is replayed exactly as recorded)
			if wd.cfg.mode == world::Mode::Order && actions.iter().any(|a| *a == Action::Finish) {
				let mut per: [std::collections::BTreeSet<u64>; 2] = Default::default();
				for a in actions.iter() {
					if let Some((g, k)) = a.message_key() {
						if g < 2 {
							per[g].insert(k);
						}
					}
				}
				wd.order_allowed = Some(per[0].intersection(&per[1]).cloned().collect());
			}
			for a in actions.iter() {
				if wd.dead {
					break;
				}
				wd.apply(a);
			}
		},
		None => {
			let rng = rng.expect("rng");
			let mut plan_rng = rng.fork("plan");
			let mut sched_rng = rng.fork("schedule");
			let mut sched = sched::Sched::new(&wd, &mut plan_rng);
			let mut idle = 0;
			// hard cap far above anything the generators produce
			let cap = wd.cfg.max_steps * 4 + 2000;
			while !wd.dead && !wd.finished && idle < 200 && wd.step < cap {
				match sched.next(&wd, &mut sched_rng) {
					Some(a) => {
						if wd.apply(&a) {
							idle = 0;
						} else {
							idle += 1;
						}
					},
					None => break,
				}
			}
		},
	}
	wd.finish()
}

fn bad(msg: String) -> RunOutcome {
	let mut o = RunOutcome::default();
	o.harness_errors.push(msg);
	o
}

impl Sim for GossipSim {
	fn name(&self) -> &'static str {
		"gossipsim"
	}

	fn run(&self, profile: &str, seed: u64, tier: Tier) -> RunOutcome {
		if !PROFILES.contains(&profile) {
			return bad(format!("gossipsim: unknown profile {:?}", profile));
		}
		let mut rng = Rng::new(seed);
		let cfg = sched::gen_config(profile, &mut rng, tier);
		let wd = World::new(cfg);
		run_world(wd, Some(rng), None, seed)
	}

	fn replay(&self, replay: &Value) -> RunOutcome {
		let cfg: Config = match serde_json::from_value(replay["config"].clone()) {
			Ok(c) => c,
			Err(e) => return bad(format!("bad replay config: {}", e)),
		};
		let trace: Vec<Action> = match serde_json::from_value(replay["trace"].clone()) {
			Ok(t) => t,
			Err(e) => return bad(format!("bad replay trace: {}", e)),
		};
		if cfg.n_nodes < 2 || cfg.n_nodes > 64 || cfg.chans.iter().any(|c| c.a >= cfg.n_nodes || c.b >= cfg.n_nodes || c.a == c.b) {
			return bad("bad replay config: inconsistent universe".into());
		}
		let wd = World::new(cfg);
		run_world(wd, None, Some(trace), 0)
	}

	fn components(&self) -> (Vec<String>, Vec<String>) {
		(
			vec![
				"routing::gossip::NetworkGraph (update_*, handle_network_update, channel_failed_permanent, node_failed_permanent, remove_stale_channels_and_tracking[_with_time], read_only, Writeable/ReadableArgs, PartialEq)".into(),
				"routing::gossip::P2PGossipSync (RoutingMessageHandler::handle_{channel_announcement,channel_update,node_announcement}, get_and_clear_pending_msg_events)".into(),
				"routing::utxo::{PendingChecks, UtxoFuture} (asynchronous lookup bookkeeping, held messages)".into(),
				"ln::msgs gossip message (de)serialisation (every handler delivery is encoded and decoded)".into(),
				"libsecp256k1 signature verification".into(),
				"util::verif simulated wall clock (hook H2), deterministic hashing (hook H1)".into(),
			],
			vec![
				"UtxoLookup (SimLookup: answers sync/async with the real output, a wrong script, or an error, as the action says)".into(),
				"the gossip network: node keys, funding keys, channels, every message (built and signed by the simulator)".into(),
				"wall clock".into(),
				"Logger (sink)".into(),
			],
		)
	}
}

#[cfg(test)]
mod tests {
	use super::*;
	use simcore::runner::run_isolated;

	#[test]
	fn seeds_are_clean_and_repeatable() {
		for profile in PROFILES {
			for seed in 0..40u64 {
				let a = run_isolated(|| GossipSim.run(profile, simcore::mix(99, seed), Tier::Quick));
				let b = run_isolated(|| GossipSim.run(profile, simcore::mix(99, seed), Tier::Quick));
				assert!(a.violations.is_empty(), "{} {}: {:?}", profile, seed, a.violations);
				assert!(a.harness_errors.is_empty(), "{} {}: {:?}", profile, seed, a.harness_errors);
				assert_eq!(a.history_fp, b.history_fp);
				assert_eq!(a.interleaving_fp, b.interleaving_fp);
				assert!(a.steps > 0);
			}
		}
	}

	#[test]
	fn unknown_profile_is_a_harness_error() {
		let o = GossipSim.run("nope", 1, Tier::Quick);
		assert!(!o.harness_errors.is_empty());
	}
}
