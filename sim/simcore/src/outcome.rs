use serde::{Deserialize, Serialize};
use serde_json::Value;
use std::collections::BTreeMap;

#[derive(Clone, Copy, Debug, PartialEq, Eq, Serialize, Deserialize)]
#[serde(rename_all = "lowercase")]
pub enum Tier {
	Quick,
	Thorough,
}

impl Tier {
	pub fn parse(s: &str) -> Option<Tier> {
		match s {
			"quick" => Some(Tier::Quick),
			"thorough" => Some(Tier::Thorough),
			_ => None,
		}
	}
	pub fn as_str(&self) -> &'static str {
		match self {
			Tier::Quick => "quick",
			Tier::Thorough => "thorough",
		}
	}
}

/// One oracle failure. `oracle` is a stable identifier such as `C01-2 conservation`; the shrinker
/// accepts a smaller trace only if the same `(property, oracle)` fails again.
#[derive(Clone, Debug, Serialize, Deserialize, PartialEq, Eq)]
pub struct Violation {
	pub property: String,
	pub oracle: String,
	pub message: String,
	pub step: u64,
}

pub type Counters = BTreeMap<String, u64>;

/// Everything a single simulated run reports back to the batch runner.
#[derive(Clone, Debug, Default, Serialize, Deserialize)]
pub struct RunOutcome {
	pub seed: u64,
	pub profile: String,
	pub violations: Vec<Violation>,
	/// Harness-internal failures (the simulator broke one of its own contracts). Exit code 2.
	pub harness_errors: Vec<String>,
	/// action kinds executed, fault kinds fired, probes hit, oracle evaluations, ...
	pub counters: Counters,
	/// fingerprints of abstract states visited (capped per run)
	pub state_fps: Vec<u64>,
	/// hash of the abstract action sequence (kinds + actors)
	pub interleaving_fp: u64,
	/// hash of the complete observable history; two executions of the same seed must agree
	pub history_fp: u64,
	/// did this run make progress by the profile's rule
	pub nontrivial: bool,
	pub steps: u64,
	pub sim_seconds: u64,
	pub sim_blocks: u64,
	/// A short printable rendering of the run (first actions), for evidence `samples`.
	pub sample: Option<Value>,
	/// `{sim, profile, seed, config, trace}` — enough for `Sim::replay`. Present when the run
	/// failed or when explicitly requested.
	pub replay: Option<Value>,
}

impl RunOutcome {
	pub fn new(profile: &str, seed: u64) -> RunOutcome {
		RunOutcome { seed, profile: profile.to_string(), ..Default::default() }
	}
	pub fn bump(&mut self, key: &str) {
		*self.counters.entry(key.to_string()).or_insert(0) += 1;
	}
	pub fn add(&mut self, key: &str, n: u64) {
		*self.counters.entry(key.to_string()).or_insert(0) += n;
	}
	pub fn violate(&mut self, property: &str, oracle: &str, step: u64, message: String) {
		// Keep the first failure of each oracle only: later ones are usually consequences.
		if self.violations.iter().any(|v| v.property == property && v.oracle == oracle) {
			return;
		}
		self.violations.push(Violation {
			property: property.to_string(),
			oracle: oracle.to_string(),
			message,
			step,
		});
	}
}
