#!/usr/bin/env bash
# Determinism self-test: every simulator/profile is run twice for a set of seeds in separate
# processes; the history fingerprints must agree. Exit 2 on any difference.
cd "$(dirname "$0")/.." || exit 2
BIN=sim/target/release/verif
[ -x $BIN ] || ./check --build-only >/dev/null || exit 2
N=${1:-12}
rc=0
run() { # sim profile
	local a b
	if [ -n "${SELFTEST_ONLY:-}" ] && ! echo " $SELFTEST_ONLY " | grep -q " $1/$2 "; then return; fi
	a=$(for s in $(seq 101 $((100+N))); do $BIN one $1 $2 quick $s 2>&1 | grep -o "history_fp [0-9a-f]*"; done | md5sum)
	b=$(for s in $(seq 101 $((100+N))); do $BIN one $1 $2 quick $s 2>&1 | grep -o "history_fp [0-9a-f]*"; done | md5sum)
	if [ "$a" = "$b" ]; then echo "same  $1/$2"; else echo "DIFF  $1/$2"; rc=2; fi
}
for p in offchain forward receive asyncpersist onchain justice tamper deadlines deadlinecrash chainstyle roundtrip onionline crash asynccrash justicesweep; do run lnsim $p; done
run transportsim mix; run transportsim adversary; run codecsim stream; run gossipsim mixed
run blocksyncsim sync; run blocksyncsim tiplies; run persistsim sync; run persistsim async
run blobsim scorer; run blobsim sweeper
# only some profiles: SELFTEST_ONLY="sim/profile ..." (space separated) is honoured below
exit $rc
