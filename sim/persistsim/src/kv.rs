//! `SimKv`: the key-value store the simulator owns. A `BTreeMap` plus an operation log, with the
//! fault kinds of DESIGN §C19(b): op-indexed crash (every prefix of the op log is a crash state),
//! lazy removals that may never take effect, and injected `io::Error`s.
//!
//! Three views of the store are kept:
//! * `live`      – what `read`/`list` see while the process runs. A lazy removal is either applied
//!                 at once or *deferred* (the key stays visible, as the `KVStoreSync::remove` docs
//!                 allow) according to `lazy_mode`.
//! * `durable`   – the store with every lazy removal applied.
//! * `lazy_pending` – keys whose lazy removal may still be lost: key -> value that is back after a
//!                 crash if the removal never took effect. A later write or strict removal of the
//!                 same key supersedes the pending removal (the trait's ordering rule).
//! A crash state after any prefix of operations is `durable` plus any subset of `lazy_pending`.

use lightning::io;
use lightning::util::persist::KVStoreSync;
use std::collections::BTreeMap;
use std::sync::{Arc, Mutex};

pub type Val = Arc<Vec<u8>>;

#[derive(Clone, Copy, Debug, PartialEq, Eq)]
pub enum OpKind {
	Read,
	Write,
	Remove { lazy: bool },
	List,
}

impl OpKind {
	pub fn name(&self) -> &'static str {
		match self {
			OpKind::Read => "read",
			OpKind::Write => "write",
			OpKind::Remove { lazy: true } => "remove_lazy",
			OpKind::Remove { lazy: false } => "remove",
			OpKind::List => "list",
		}
	}
}

#[derive(Clone, Debug)]
pub struct Op {
	pub kind: OpKind,
	pub primary: String,
	pub secondary: String,
	pub key: String,
	pub value: Option<Val>,
	/// index of the persister-level call that issued the operation
	pub call: usize,
	/// an injected error was returned
	pub err: bool,
	/// the operation changed the durable state (or, for an erroring write, took effect anyway)
	pub applied: bool,
	/// lazy removal left visible in the live view
	pub deferred: bool,
	/// did the key exist in the durable view before a removal
	pub existed: bool,
}

pub fn join(p: &str, s: &str, k: &str) -> String {
	format!("{}/{}/{}", p, s, k)
}

/// The durable part of the store after some prefix of the operation log.
#[derive(Clone, Default)]
pub struct Snapshot {
	/// joined key -> (value, index of the writing op)
	pub durable: BTreeMap<String, (Val, usize)>,
	pub lazy_pending: BTreeMap<String, (Val, usize)>,
}

impl Snapshot {
	/// The crash state in which exactly the pending lazy removals selected by `lost` never took
	/// effect.
	pub fn crash_state(&self, lost: &dyn Fn(&str) -> bool) -> BTreeMap<String, (Val, usize)> {
		let mut m = self.durable.clone();
		for (k, v) in self.lazy_pending.iter() {
			if lost(k) {
				m.insert(k.clone(), v.clone());
			}
		}
		m
	}
}

pub struct KvInner {
	pub live: BTreeMap<String, (Val, usize)>,
	pub snap: Snapshot,
	pub ops: Vec<Op>,
	/// snapshots after each state-changing op since the last `take_snaps`: (op index, state after)
	pub snaps: Vec<(usize, Snapshot)>,
	pub record_snaps: bool,
	pub cur_call: usize,
	/// (ops to let pass before the failing one, does the failing op still take effect)
	pub arm_err: Option<(u32, bool)>,
	pub err_fired: u64,
	/// 0: lazy removals are visible at once; 1: always deferred; 2: deferred for every other one
	pub lazy_mode: u8,
	pub lazy_count: u64,
	pub list_salt: u64,
	/// violations of the `KVStore` caller contract (bad key / namespace)
	pub bad_keys: Vec<String>,
}

pub struct SimKv {
	pub inner: Mutex<KvInner>,
}

fn valid_part(s: &str) -> bool {
	s.len() <= lightning::util::persist::KVSTORE_NAMESPACE_KEY_MAX_LEN
		&& s.chars().all(|c| lightning::util::persist::KVSTORE_NAMESPACE_KEY_ALPHABET.contains(c))
}

impl SimKv {
	pub fn new(lazy_mode: u8, list_salt: u64, record_snaps: bool) -> SimKv {
		SimKv {
			inner: Mutex::new(KvInner {
				live: BTreeMap::new(),
				snap: Snapshot::default(),
				ops: Vec::new(),
				snaps: Vec::new(),
				record_snaps,
				cur_call: 0,
				arm_err: None,
				err_fired: 0,
				lazy_mode,
				lazy_count: 0,
				list_salt,
				bad_keys: Vec::new(),
			}),
		}
	}

	/// A store whose live and durable contents are exactly `state` (a crash state being recovered).
	pub fn from_state(state: &BTreeMap<String, (Val, usize)>, list_salt: u64) -> SimKv {
		let kv = SimKv::new(0, list_salt, false);
		{
			let mut g = kv.inner.lock().unwrap();
			g.live = state.clone();
			g.snap.durable = state.clone();
		}
		kv
	}

	pub fn set_call(&self, call: usize) {
		self.inner.lock().unwrap().cur_call = call;
	}

	pub fn op_count(&self) -> usize {
		self.inner.lock().unwrap().ops.len()
	}

	pub fn take_snaps(&self) -> Vec<(usize, Snapshot)> {
		std::mem::take(&mut self.inner.lock().unwrap().snaps)
	}

	pub fn current(&self) -> Snapshot {
		self.inner.lock().unwrap().snap.clone()
	}

	/// The store syncs: every pending lazy removal is now durable (and no longer visible).
	pub fn flush_lazy(&self) -> usize {
		let mut g = self.inner.lock().unwrap();
		let keys: Vec<String> = g.snap.lazy_pending.keys().cloned().collect();
		for k in keys.iter() {
			g.live.remove(k);
		}
		g.snap.lazy_pending.clear();
		keys.len()
	}

	pub fn arm_error(&self, after: u32, applied: bool) {
		self.inner.lock().unwrap().arm_err = Some((after, applied));
	}

	fn check_names(g: &mut KvInner, p: &str, s: &str, k: Option<&str>) {
		let ok = valid_part(p)
			&& valid_part(s)
			&& k.map_or(true, |k| valid_part(k) && !k.is_empty())
			&& !(p.is_empty() && !s.is_empty());
		if !ok && g.bad_keys.len() < 4 {
			g.bad_keys.push(join(p, s, k.unwrap_or("<list>")));
		}
	}

	/// Returns Some(applied) when the armed error fires on this op.
	fn fault(g: &mut KvInner) -> Option<bool> {
		match g.arm_err {
			Some((0, applied)) => {
				g.arm_err = None;
				g.err_fired += 1;
				Some(applied)
			},
			Some((n, applied)) => {
				g.arm_err = Some((n - 1, applied));
				None
			},
			None => None,
		}
	}

	fn push_snap(g: &mut KvInner) {
		if g.record_snaps {
			let idx = g.ops.len() - 1;
			let s = g.snap.clone();
			g.snaps.push((idx, s));
		}
	}
}

fn injected() -> io::Error {
	io::Error::new(io::ErrorKind::Other, "persistsim: injected store error")
}

impl KVStoreSync for SimKv {
	fn read(&self, p: &str, s: &str, k: &str) -> Result<Vec<u8>, io::Error> {
		let mut g = self.inner.lock().unwrap();
		Self::check_names(&mut g, p, s, Some(k));
		let f = Self::fault(&mut g);
		let call = g.cur_call;
		g.ops.push(Op {
			kind: OpKind::Read,
			primary: p.into(),
			secondary: s.into(),
			key: k.into(),
			value: None,
			call,
			err: f.is_some(),
			applied: false,
			deferred: false,
			existed: false,
		});
		if f.is_some() {
			return Err(injected());
		}
		match g.live.get(&join(p, s, k)) {
			Some((v, _)) => Ok((**v).clone()),
			None => Err(io::Error::new(io::ErrorKind::NotFound, "not found")),
		}
	}

	fn write(&self, p: &str, s: &str, k: &str, buf: Vec<u8>) -> Result<(), io::Error> {
		let mut g = self.inner.lock().unwrap();
		Self::check_names(&mut g, p, s, Some(k));
		let f = Self::fault(&mut g);
		let applied = f.unwrap_or(true);
		let call = g.cur_call;
		let v: Val = Arc::new(buf);
		let idx = g.ops.len();
		g.ops.push(Op {
			kind: OpKind::Write,
			primary: p.into(),
			secondary: s.into(),
			key: k.into(),
			value: Some(Arc::clone(&v)),
			call,
			err: f.is_some(),
			applied,
			deferred: false,
			existed: false,
		});
		if applied {
			let jk = join(p, s, k);
			g.live.insert(jk.clone(), (Arc::clone(&v), idx));
			g.snap.durable.insert(jk.clone(), (v, idx));
			g.snap.lazy_pending.remove(&jk);
			Self::push_snap(&mut g);
		}
		if f.is_some() {
			Err(injected())
		} else {
			Ok(())
		}
	}

	fn remove(&self, p: &str, s: &str, k: &str, lazy: bool) -> Result<(), io::Error> {
		let mut g = self.inner.lock().unwrap();
		Self::check_names(&mut g, p, s, Some(k));
		let f = Self::fault(&mut g);
		let applied = f.unwrap_or(true);
		let call = g.cur_call;
		let jk = join(p, s, k);
		let existed = g.snap.durable.contains_key(&jk) || g.snap.lazy_pending.contains_key(&jk);
		let mut deferred = false;
		if applied {
			if lazy {
				g.lazy_count += 1;
				deferred = match g.lazy_mode {
					0 => false,
					1 => true,
					_ => g.lazy_count % 2 == 0,
				};
				if let Some(v) = g.snap.durable.remove(&jk) {
					g.snap.lazy_pending.entry(jk.clone()).or_insert(v);
				}
				if !deferred {
					g.live.remove(&jk);
				}
			} else {
				g.live.remove(&jk);
				g.snap.durable.remove(&jk);
				g.snap.lazy_pending.remove(&jk);
			}
		}
		g.ops.push(Op {
			kind: OpKind::Remove { lazy },
			primary: p.into(),
			secondary: s.into(),
			key: k.into(),
			value: None,
			call,
			err: f.is_some(),
			applied,
			deferred,
			existed,
		});
		if applied && existed {
			Self::push_snap(&mut g);
		}
		if f.is_some() {
			Err(injected())
		} else {
			Ok(())
		}
	}

	fn list(&self, p: &str, s: &str) -> Result<Vec<String>, io::Error> {
		let mut g = self.inner.lock().unwrap();
		Self::check_names(&mut g, p, s, None);
		let f = Self::fault(&mut g);
		let call = g.cur_call;
		g.ops.push(Op {
			kind: OpKind::List,
			primary: p.into(),
			secondary: s.into(),
			key: String::new(),
			value: None,
			call,
			err: f.is_some(),
			applied: false,
			deferred: false,
			existed: false,
		});
		if f.is_some() {
			return Err(injected());
		}
		let prefix = format!("{}/{}/", p, s);
		let mut keys: Vec<String> = g
			.live
			.range(prefix.clone()..)
			.take_while(|(k, _)| k.starts_with(&prefix))
			.map(|(k, _)| k[prefix.len()..].to_string())
			.collect();
		// "Returns the keys in arbitrary order": a deterministic scramble, different per run.
		let salt = g.list_salt;
		keys.sort_by_key(|k| simcore::fnv_extend(simcore::fnv(&salt.to_le_bytes()), k.as_bytes()));
		Ok(keys)
	}
}
