//! transportsim: deterministic simulation deciding C15 — "the encrypted transport delivers the
//! exact message sequence or disconnects". See /verif/DESIGN.md §5 C15.
//!
//! Two or three real `PeerManager`s (plus, in some runs, a raw adversary peer built directly on
//! `PeerChannelEncryptor`) are connected by simulated byte pipes owned by a seeded scheduler that
//! fragments, delays, back-pressures, corrupts, replays and cuts the byte streams.

pub mod handlers;
pub mod net;
pub mod raw;
pub mod sched;
pub mod world;

use serde_json::Value;
use simcore::{Rng, RunOutcome, Sim, Tier};
use world::{Action, Config, World};

pub struct TransportSim;

pub const PROFILES: [&str; 3] = ["mix", "rotation", "adversary"];

fn run_world(mut wd: World, rng: Option<Rng>, trace: Option<Vec<Action>>) -> RunOutcome {
	lightning::util::verif::set_now(std::time::Duration::from_secs(1_700_000_000));
	match trace {
		Some(actions) => {
			for a in actions.iter() {
				if wd.dead {
					break;
				}
				wd.apply(a);
			}
		},
		None => {
			let mut sched = rng.expect("rng").fork("schedule");
			let max = wd.cfg.max_steps;
			let mut idle = 0;
			while (wd.trace.len() as u64) < max && !wd.dead && idle < 50 {
				match sched::next_action(&wd, &mut sched) {
					Some(a) => {
						if wd.apply(&a) {
							idle = 0;
						} else {
							idle += 1;
						}
					},
					None => break,
				}
			}
			if !wd.dead {
				wd.apply(&Action::Settle);
			}
		},
	}
	wd.finish()
}

impl Sim for TransportSim {
	fn name(&self) -> &'static str {
		"transportsim"
	}

	fn run(&self, profile: &str, seed: u64, tier: Tier) -> RunOutcome {
		let mut rng = Rng::new(seed);
		let cfg = sched::gen_config(profile, &mut rng, seed, tier);
		let wd = World::new(cfg);
		run_world(wd, Some(rng), None)
	}

	fn replay(&self, replay: &Value) -> RunOutcome {
		let cfg: Config = match serde_json::from_value(replay["config"].clone()) {
			Ok(c) => c,
			Err(e) => {
				let mut o = RunOutcome::default();
				o.harness_errors.push(format!("bad replay config: {}", e));
				return o;
			},
		};
		let trace: Vec<Action> = match serde_json::from_value(replay["trace"].clone()) {
			Ok(t) => t,
			Err(e) => {
				let mut o = RunOutcome::default();
				o.harness_errors.push(format!("bad replay trace: {}", e));
				return o;
			},
		};
		if cfg.n_nodes == 0 || cfg.features.len() != cfg.n_nodes || cfg.chain.len() != cfg.n_nodes {
			let mut o = RunOutcome::default();
			o.harness_errors.push("bad replay config: per-node vectors do not match n_nodes".to_string());
			return o;
		}
		let wd = World::new(cfg);
		run_world(wd, None, Some(trace))
	}

	fn components(&self) -> (Vec<String>, Vec<String>) {
		(
			vec![
				"ln::peer_handler::PeerManager (handshake driving, read/write state machines, init exchange, ping/pong, back-pressure)".into(),
				"ln::peer_channel_encryptor::PeerChannelEncryptor (BOLT-8 noise handshake, ChaCha20-Poly1305 framing, key rotation)".into(),
				"ln::wire message type dispatch and message (de)serialisation of every message sent".into(),
				"sign::KeysManager as NodeSigner (node key, ECDH)".into(),
				"libsecp256k1".into(),
			],
			vec![
				"SocketDescriptor (SimSocket: byte pipes, write credit, frame tracker)".into(),
				"ChannelMessageHandler / RoutingMessageHandler / OnionMessageHandler / CustomMessageHandler / SendOnlyMessageHandler (recording stubs; messages are queued by the scheduler)".into(),
				"raw adversary peer (drives PeerChannelEncryptor directly; TestNodeSigner for its key)".into(),
				"timer (timer_tick_occurred is a scheduler action)".into(),
				"Logger".into(),
			],
		)
	}
}
