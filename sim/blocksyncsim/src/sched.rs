//! Per-run (swarm) configuration and the scheduler that picks the next action.

use crate::source::{BlockMode, FaultKind, FaultSpec};
use crate::world::{Action, Config, GenParams, Start, World};
use simcore::{Rng, Tier};
use std::collections::VecDeque;

pub const ALL_KINDS: [&str; 9] = [
	"Transient",
	"Persistent",
	"BadPow",
	"NonConnecting",
	"WrongHeight",
	"WrongChainwork",
	"WrongBlock",
	"BadMerkle",
	"TipChange",
];

pub fn gen_config(profile: &str, rng: &mut Rng, tier: Tier) -> Config {
	let thorough = tier == Tier::Thorough;
	let block_mode = *rng.pick(&[BlockMode::Full, BlockMode::HeaderOnly, BlockMode::Mixed]);
	let best_height_known = rng.chance(3, 4);
	let tiplies = profile == "tiplies";
	let mut kinds: Vec<String> = Vec::new();
	if tiplies {
		kinds.push("WrongHeight".into());
		kinds.push("WrongChainwork".into());
		if rng.coin() {
			kinds.push("Transient".into());
		}
	} else {
		for k in ALL_KINDS.iter() {
			if rng.coin() {
				kinds.push(k.to_string());
			}
		}
		if kinds.is_empty() || rng.chance(1, 4) {
			kinds = ALL_KINDS.iter().map(|s| s.to_string()).collect();
		}
	}
	let deep = if thorough { rng.chance(1, 8) } else { rng.chance(1, 64) };
	let max_steps = if thorough { rng.range(60, 200) } else { rng.range(30, 80) } as u32;
	let gen = GenParams {
		max_steps: if deep { max_steps.min(60) } else { max_steps },
		n_listeners: rng.range(1, 3) as u8,
		fault_pct: *rng.pick(&[0u32, 15, 35, 60]),
		two_fault_pct: *rng.pick(&[0u32, 0, 25]),
		pend_pct: *rng.pick(&[0u32, 30, 80]),
		kinds,
		deep,
		short_len_max: *rng.pick(&[2u32, 4, 8]),
		medium_pct: *rng.pick(&[0u32, 10, 25]),
		weights: vec![
			rng.range(2, 8) as u32,  // Extend
			rng.range(1, 6) as u32,  // Fork
			rng.range(1, 5) as u32,  // SetBest
			rng.range(6, 14) as u32, // Poll
			rng.range(1, 4) as u32,  // InitSync
			rng.range(0, 1) as u32,  // NewClient
		],
		enumerate: profile != "cancel" && rng.chance(1, 3),
		bad_blocks: !tiplies && rng.coin(),
		forget_pct: *rng.pick(&[0u32, 0, 10, 30]),
		cancel_pct: if profile == "cancel" { 25 } else { 0 },
	};
	Config {
		profile: profile.to_string(),
		tier: tier.as_str().to_string(),
		block_mode,
		best_height_known,
		allow_tip_lies: tiplies,
		gen,
	}
}

pub struct Gen {
	pub p: GenParams,
	pub thorough: bool,
	pub queue: VecDeque<Action>,
	pub branches: Vec<u32>,
	pub next_branch: u32,
	pub best_branch: u32,
	pub deep_forks_left: u32,
}

impl Gen {
	pub fn new(cfg: &Config) -> Gen {
		Gen {
			p: cfg.gen.clone(),
			thorough: cfg.tier == "thorough",
			queue: VecDeque::new(),
			branches: vec![0],
			next_branch: 1,
			best_branch: 0,
			deep_forks_left: if cfg.gen.deep { 2 } else { 0 },
		}
	}

	fn len(&mut self, rng: &mut Rng) -> u32 {
		if self.p.medium_pct > 0 && rng.chance(self.p.medium_pct as u64, 100) {
			return rng.range(10, if self.thorough { 150 } else { 60 }) as u32;
		}
		rng.range(1, self.p.short_len_max as u64) as u32
	}

	fn total_blocks(w: &World) -> usize {
		w.src.lock().tree.blocks.len()
	}

	pub fn kind_from_name(&mut self, name: &str, w: &World, rng: &mut Rng) -> FaultKind {
		match name {
			"Transient" => FaultKind::Transient,
			"Persistent" => FaultKind::Persistent,
			"BadPow" => FaultKind::BadPow,
			"NonConnecting" => FaultKind::NonConnecting,
			"WrongHeight" => FaultKind::WrongHeight,
			"WrongChainwork" => FaultKind::WrongChainwork,
			"WrongBlock" => FaultKind::WrongBlock,
			"BadMerkle" => FaultKind::BadMerkle,
			_ => {
				let st = w.src.lock();
				let b = *rng.pick(&self.branches);
				let th = st.tree.branch_tip_height(b).unwrap_or(0);
				let back = if rng.chance(2, 3) { 0 } else { rng.range(0, 3) as u32 };
				FaultKind::TipChange { branch: b, height: th.saturating_sub(back) }
			},
		}
	}

	pub fn gen_faults(&mut self, w: &World, rng: &mut Rng, est: u32) -> Vec<FaultSpec> {
		let mut v = Vec::new();
		if self.p.kinds.is_empty() || !rng.chance(self.p.fault_pct as u64, 100) {
			return v;
		}
		let n = if rng.chance(self.p.two_fault_pct as u64, 100) { 2 } else { 1 };
		for _ in 0..n {
			let name = rng.pick(&self.p.kinds).clone();
			let kind = self.kind_from_name(&name, w, rng);
			let hi = if rng.chance(2, 5) { est.min(4) } else { est };
			let at = rng.range(0, hi as u64) as u32;
			v.push(FaultSpec { at, kind, arg: rng.next_u64() as u32 });
		}
		v
	}

	pub fn gen_pend(&mut self, rng: &mut Rng) -> Vec<u8> {
		if !rng.chance(self.p.pend_pct as u64, 100) {
			return Vec::new();
		}
		let n = rng.range(1, 7);
		(0..n).map(|_| rng.range(0, 3) as u8).collect()
	}

	/// Upper estimate of the number of source requests of a poll now.
	pub fn poll_estimate(w: &World) -> u32 {
		let st = w.src.lock();
		match &w.client {
			None => 2,
			Some(c) => {
				let top = *c.stacks[0].last().unwrap();
				let lca = st.tree.lca(top, st.best);
				let down = st.tree.blocks[top].height - st.tree.blocks[lca].height;
				let up = st.tree.blocks[st.best].height - st.tree.blocks[lca].height;
				2 + down + 2 * up
			},
		}
	}

	pub fn gen_poll(&mut self, w: &World, rng: &mut Rng, with_faults: bool) -> Action {
		let est = Self::poll_estimate(w);
		let faults = if with_faults { self.gen_faults(w, rng, est) } else { Vec::new() };
		let forget_stale = self.p.forget_pct > 0 && rng.chance(self.p.forget_pct as u64, 100);
		let cancel_after = if self.p.cancel_pct > 0 && rng.chance(self.p.cancel_pct as u64, 100) {
			Some(rng.range(0, 2 * est as u64 + 4) as u32)
		} else {
			None
		};
		let pend = if self.p.cancel_pct > 0 { vec![1] } else { self.gen_pend(rng) };
		Action::Poll { faults, pend, forget_stale, cancel_after }
	}

	pub fn gen_init(&mut self, w: &World, rng: &mut Rng, with_faults: bool) -> Action {
		let n = if rng.chance(1, 4) { rng.range(1, 3) } else { self.p.n_listeners as u64 };
		let mut starts = Vec::new();
		let mut est = 2u32;
		{
			let st = w.src.lock();
			let best_h = st.tree.blocks[st.best].height;
			for _ in 0..n {
				let (branch, tip_h) = if rng.coin() {
					(self.best_branch, st.tree.branch_tip_height(self.best_branch).unwrap_or(0))
				} else {
					let b = *rng.pick(&self.branches);
					(b, st.tree.branch_tip_height(b).unwrap_or(0))
				};
				let back = match rng.below(6) {
					0 => 0,
					1 | 2 => rng.range(0, 3) as u32,
					3 => rng.range(0, 14) as u32,
					4 => rng.range(0, 50) as u32,
					_ => {
						if self.p.deep {
							rng.range(0, 1100) as u32
						} else {
							rng.range(0, 80) as u32
						}
					},
				};
				let height = tip_h.saturating_sub(back);
				let prev_known = *rng.pick(&[0u8, 1, 3, 6, 12, 12]);
				est += 2 + back + best_h.saturating_sub(height).min(200);
				starts.push(Start { branch, height, prev_known });
			}
		}
		let forget_stale = rng.chance(1, 4);
		let faults = if with_faults { self.gen_faults(w, rng, est.min(60)) } else { Vec::new() };
		Action::InitSync { starts, forget_stale, faults, pend: self.gen_pend(rng) }
	}

	/// A change of the tree and/or of the source's best tip (1-2 actions; the first is returned,
	/// the rest queued).
	pub fn gen_move(&mut self, w: &World, rng: &mut Rng, which: u64) -> Action {
		let too_big = Self::total_blocks(w) > 5000;
		match which {
			0 if !too_big => {
				let branch = if rng.chance(7, 10) { self.best_branch } else { *rng.pick(&self.branches) };
				let n = self.len(rng);
				if rng.chance(17, 20) {
					self.queue.push_back(Action::SetBest { branch, height: None });
					self.best_branch = branch;
				}
				Action::Extend { branch, n }
			},
			1 if !too_big => {
				let from = if rng.chance(6, 10) { self.best_branch } else { *rng.pick(&self.branches) };
				let tip_h = w.src.lock().tree.branch_tip_height(from).unwrap_or(0);
				let deep = self.deep_forks_left > 0 && tip_h > 1010 && rng.chance(1, 3);
				let d = if deep {
					self.deep_forks_left -= 1;
					rng.range(1005, 1100.min(tip_h as u64)) as u32
				} else {
					self.len(rng).min(tip_h)
				};
				let n = match rng.below(4) {
					0 => d.saturating_sub(rng.range(1, 2) as u32).max(1),
					1 => d.max(1),
					2 => d + rng.range(1, 3) as u32,
					_ => {
						if deep {
							d + 1
						} else {
							self.len(rng)
						}
					},
				};
				let nb = self.next_branch;
				self.next_branch += 1;
				self.branches.push(nb);
				if rng.chance(3, 4) {
					self.queue.push_back(Action::SetBest { branch: nb, height: None });
					self.best_branch = nb;
				}
				let bad = if self.p.bad_blocks && rng.chance(1, 6) {
					Some((rng.below(n as u64) as u32, if rng.chance(2, 3) { 1u8 } else { 2u8 }))
				} else {
					None
				};
				Action::Fork { new_branch: nb, from, at_height: tip_h - d, n, bad }
			},
			_ => {
				let branch = *rng.pick(&self.branches);
				self.best_branch = branch;
				let height = if rng.chance(4, 5) {
					None
				} else {
					let th = w.src.lock().tree.branch_tip_height(branch).unwrap_or(0);
					Some(th.saturating_sub(rng.range(1, 4) as u32))
				};
				Action::SetBest { branch, height }
			},
		}
	}

	pub fn setup(&mut self, rng: &mut Rng) {
		let n = if self.p.deep { rng.range(1010, 1100) } else { rng.range(1, 24) } as u32;
		self.queue.push_back(Action::Extend { branch: 0, n });
		self.queue.push_back(Action::SetBest { branch: 0, height: None });
		if rng.chance(2, 3) {
			let h = n.saturating_sub(rng.range(0, 3) as u32);
			self.queue.push_back(Action::NewClient { branch: 0, height: h, listeners: self.p.n_listeners });
		}
	}

	pub fn next(&mut self, w: &World, rng: &mut Rng) -> Action {
		if let Some(a) = self.queue.pop_front() {
			return a;
		}
		if w.client.is_none() {
			return if rng.coin() {
				self.gen_init(w, rng, false)
			} else {
				let th = w.src.lock().tree.branch_tip_height(self.best_branch).unwrap_or(0);
				Action::NewClient {
					branch: self.best_branch,
					height: th.saturating_sub(rng.range(0, 4) as u32),
					listeners: self.p.n_listeners,
				}
			};
		}
		let weights = self.p.weights.clone();
		match rng.weighted(&weights) {
			0 => self.gen_move(w, rng, 0),
			1 => self.gen_move(w, rng, 1),
			2 => self.gen_move(w, rng, 2),
			3 => self.gen_poll(w, rng, true),
			4 => self.gen_init(w, rng, true),
			_ => {
				let b = *rng.pick(&self.branches);
				let th = w.src.lock().tree.branch_tip_height(b).unwrap_or(0);
				Action::NewClient {
					branch: b,
					height: th.saturating_sub(rng.range(0, 6) as u32),
					listeners: self.p.n_listeners,
				}
			},
		}
	}
}
