//! lnsim: deterministic simulation of a small Lightning network built from the real
//! `ChannelManager` / `ChainMonitor` / `ChannelMonitor` code, with the simulator owning message
//! delivery, persistence, the chain, time, and crashes.

pub mod chain;
pub mod chainstyle;
pub mod crash;
pub mod deadlines;
pub mod infra;
pub mod justice;
pub mod ledger;
pub mod onchain;
pub mod onionline;
pub mod roundtrip;
pub mod oracle;
pub mod sched;
pub mod world;

use serde_json::Value;
use simcore::{Rng, RunOutcome, Sim, Tier};
use world::{Action, Config, World};

pub struct LnSim;

/// Runs a world; a panic raised by library code outside an action (a read-only query such as
/// `list_channels` made by the scheduler or the state fingerprint) is a violation like any other
/// library panic, reported with the trace attempted so far.
fn run_world(wd: World, rng: Option<Rng>, trace: Option<Vec<Action>>, seed: u64) -> RunOutcome {
	let profile = wd.cfg.profile.clone();
	match simcore::runner::catch(|| run_world_inner(wd, rng, trace, seed)) {
		Ok(o) => o,
		Err((msg, loc)) => {
			if !loc.contains("/repo/") {
				std::panic::panic_any(format!("harness panic at {}: {}", loc, msg));
			}
			let (cfg, tr) = world::CURRENT_RUN.with(|c| c.borrow_mut().take()).unwrap_or_else(|| panic!("no current run"));
			let prop = match profile.as_str() {
				"offchain" => "C01",
				"forward" => "C02",
				"payments" => "C03",
				"receive" => "C04",
				"justice" => "C06",
				"tamper" => "C05",
				"onchain" => "C07",
				"deadlines" => "C08",
				"asyncpersist" => "C09",
				"crash" => "C10",
				"chainstyle" => "C11",
				"roundtrip" => "C12",
				"onionline" => "C14",
				_ => "C01",
			};
			let mut o = RunOutcome::new("lnsim", seed);
			o.seed = seed;
			o.steps = tr.len() as u64;
			o.nontrivial = true;
			o.violate(
				prop,
				&format!("{}-0 panic outside an action", prop),
				tr.len() as u64,
				format!("library panicked in a query made between actions: {} at {}", msg, loc),
			);
			o.replay = Some(serde_json::json!({
				"sim": "lnsim",
				"profile": profile,
				"config": serde_json::to_value(&cfg).unwrap(),
				"trace": serde_json::to_value(&tr).unwrap(),
			}));
			o
		},
	}
}

fn run_world_inner(mut wd: World, mut rng: Option<Rng>, trace: Option<Vec<Action>>, seed: u64) -> RunOutcome {
	wd.out.seed = seed;
	wd.setup();
	match trace {
		Some(actions) => {
			for a in actions.iter() {
				if wd.dead {
					break;
				}
				wd.apply(a);
			}
		},
		None => {
			let rng = rng.as_mut().unwrap();
			let mut sched = rng.fork("schedule");
			let max = wd.cfg.max_steps;
			let mut idle = 0;
			while (wd.trace.len() as u64) < max && !wd.dead && idle < 50 {
				match sched::next_action(&wd, &mut sched) {
					Some(a) => {
						if wd.apply(&a) {
							idle = 0;
						} else {
							idle += 1;
						}
					},
					None => break,
				}
			}
			if !wd.dead {
				wd.apply(&Action::Settle);
			}
			if !wd.dead && !wd.strict_offchain && wd.cfg.profile != "onionline" {
				if wd.cfg.profile == "justice" && wd.cheat.is_none() {
					if let Some(a) = sched::gen_cheat(&wd, &mut sched) {
						wd.apply(&a);
					}
				}
				if !wd.dead && matches!(wd.cfg.profile.as_str(), "justice" | "onchain") {
					let a = sched::gen_liq_plan(&wd, &mut sched);
					wd.apply(&a);
				}
				if !wd.dead {
					wd.apply(&Action::Liquidate);
				}
			}
		},
	}
	if !wd.dead && matches!(wd.trace.last(), Some(&Action::Settle) | Some(&Action::Liquidate)) {
		wd.final_oracles();
		if wd.trace.last() == Some(&Action::Liquidate) {
			wd.wealth_oracle(&[]);
			wd.justice_oracle();
			if wd.cfg.profile == "deadlines" {
				wd.claim_window_oracle();
			}
		}
		if wd.cfg.profile == "roundtrip" {
			for n in 0..wd.nodes.len() {
				wd.read_faults(n);
			}
		}
	}
	let progressed = wd.out.counters.get("event:PaymentSent").copied().unwrap_or(0)
		+ wd.out.counters.get("event:PaymentFailed").copied().unwrap_or(0)
		+ wd.out.counters.iter().filter(|(k, _)| k.starts_with("fault:")).map(|(_, v)| *v).sum::<u64>();
	wd.out.nontrivial = progressed > 0;
	if wd.cfg.profile == "justice" {
		wd.out.nontrivial = wd.out.counters.get("fault:revoked_commitment_confirmed").copied().unwrap_or(0) > 0;
	}
	wd.finish()
}

/// C10 sweep mode: one scenario, then a crash at every cut position of it (between actions and
/// inside the persist calls of the next action), for every node, with the in-flight monitor writes
/// lost / kept, followed by restart, settle, liquidation and all oracles.
fn run_crash_sweep(seed: u64, tier: Tier) -> RunOutcome {
	let mut rng = Rng::new(seed);
	let mut cfg = sched::gen_config("crash", &mut rng, tier);
	for k in ["Crash", "ArmCrash", "Restart"] {
		cfg.weights.insert(k.to_string(), 0);
	}
	cfg.max_steps = match tier {
		Tier::Quick => 30 + rng.below(25),
		Tier::Thorough => 40 + rng.below(50),
	};
	cfg.profile = "crash".to_string();
	// 1. the scenario
	let mut base = World::new(cfg.clone());
	base.out.seed = seed;
	base.setup();
	let mut sched_rng = rng.fork("schedule");
	let mut idle = 0;
	while (base.trace.len() as u64) < cfg.max_steps && !base.dead && idle < 50 {
		match sched::next_action(&base, &mut sched_rng) {
			Some(a) => {
				if base.apply(&a) {
					idle = 0;
				} else {
					idle += 1;
				}
			},
			None => break,
		}
	}
	let scenario: Vec<Action> = base.trace.clone();
	let n_nodes = cfg.nodes.len();
	let mut out = RunOutcome::new("crashsweep", seed);
	out.seed = seed;
	out.counters = base.out.counters.clone();
	out.violations = base.out.violations.clone();
	out.harness_errors = base.out.harness_errors.clone();
	out.state_fps = base.state_fps.iter().cloned().collect();
	out.interleaving_fp = base.inter;
	out.history_fp = base.hist;
	out.steps = base.step;
	let mut first_replay = None;
	if !out.violations.is_empty() {
		let b = base.finish();
		out.replay = b.replay;
		out.sample = b.sample;
		return out;
	}
	drop(base);
	// 2. the cuts
	let mut cuts: Vec<usize> = (0..=scenario.len()).collect();
	if tier == Tier::Quick && cuts.len() > 24 {
		let mut pick = rng.fork("cuts");
		pick.shuffle(&mut cuts);
		cuts.truncate(24);
		cuts.sort();
	}
	let mut variants: Vec<(usize, u8)> = Vec::new();
	for n in 0..n_nodes {
		for v in 0..3u8 {
			variants.push((n, v));
		}
	}
	for k in cuts.iter() {
		for (n, v) in variants.iter() {
			let mut trace: Vec<Action> = scenario[..*k].to_vec();
			match v {
				0 => trace.push(Action::Crash { n: *n, pick: vec![0, 0, 0, 0, 0, 0] }),
				1 => trace.push(Action::Crash { n: *n, pick: vec![9, 9, 9, 9, 9, 9] }),
				_ => {
					// crash inside the first persist call of the next action of the scenario
					if *k >= scenario.len() {
						continue;
					}
					trace.push(Action::ArmCrash { n: *n, at: 1, after: (*k % 2) == 0 });
					trace.push(scenario[*k].clone());
				},
			}
			trace.push(Action::Settle);
			trace.push(Action::Liquidate);
			let wd = World::new(cfg.clone());
			let sub = run_world(wd, None, Some(trace), seed);
			out.bump("crashpoints_explored");
			out.bump(match v {
				0 => "crashpoint:between_actions_inflight_lost",
				1 => "crashpoint:between_actions_inflight_survived",
				_ => "crashpoint:inside_persist_call",
			});
			for (key, val) in sub.counters.iter() {
				if key.starts_with("fault:") || key.starts_with("probe:") || key.starts_with("oracle:") || key.starts_with("closure:") {
					*out.counters.entry(key.clone()).or_insert(0) += *val;
				}
			}
			out.history_fp = simcore::fnv_extend(out.history_fp, &sub.history_fp.to_le_bytes());
			out.steps += sub.steps;
			out.sim_blocks += sub.sim_blocks;
			out.sim_seconds += sub.sim_seconds;
			for he in sub.harness_errors.iter() {
				if out.harness_errors.len() < 3 {
					out.harness_errors.push(he.clone());
				}
			}
			for viol in sub.violations.iter() {
				let known = out.violations.iter().any(|x| x.property == viol.property && x.oracle == viol.oracle);
				if !known {
					out.violations.push(viol.clone());
					if first_replay.is_none() {
						first_replay = sub.replay.clone();
					}
				}
			}
			if out.sample.is_none() {
				out.sample = sub.sample.clone();
			}
		}
	}
	out.nontrivial = true;
	out.replay = first_replay;
	out
}

/// C06 sweep mode: one off-chain history (profile `justice`, no cheat while it is built), then one
/// run per revoked commitment of that history: for every channel, either side as the cheater and
/// *every* archived commitment the other side can punish (not one sampled age), the history is
/// replayed, the revoked commitment confirmed with a seeded subset of its HTLC transactions, and
/// the chain run to the end under a seeded liquidation plan with all C06 oracles armed.
fn run_justice_sweep(seed: u64, tier: Tier) -> RunOutcome {
	let mut rng = Rng::new(seed);
	let mut cfg = sched::gen_config("justice", &mut rng, tier);
	cfg.weights.insert("CheatEarly".to_string(), 0);
	cfg.weights.insert("Crash".to_string(), 0);
	let mut base = World::new(cfg.clone());
	base.out.seed = seed;
	base.setup();
	let mut sched_rng = rng.fork("schedule");
	let mut idle = 0;
	while (base.trace.len() as u64) < cfg.max_steps && !base.dead && idle < 50 {
		match sched::next_action(&base, &mut sched_rng) {
			Some(a) => {
				if base.apply(&a) {
					idle = 0;
				} else {
					idle += 1;
				}
			},
			None => break,
		}
	}
	if !base.dead {
		base.apply(&Action::Settle);
	}
	let scenario: Vec<Action> = base.trace.clone();
	let mut out = RunOutcome::new("justicesweep", seed);
	out.seed = seed;
	out.counters = base.out.counters.clone();
	out.violations = base.out.violations.clone();
	out.harness_errors = base.out.harness_errors.clone();
	out.state_fps = base.state_fps.iter().cloned().collect();
	out.interleaving_fp = base.inter;
	out.history_fp = base.hist;
	out.steps = base.step;
	if !out.violations.is_empty() || base.dead {
		let b = base.finish();
		out.replay = b.replay;
		out.sample = b.sample;
		return out;
	}
	// every (cheater, channel, revoked state) of this history
	let mut variants: Vec<(usize, usize, u32)> = Vec::new();
	for c in base.chans.iter() {
		if !base.chain.utxos.contains_key(&c.funding) {
			continue;
		}
		for x in [c.a, c.b] {
			for age in 0..base.revoked_entries(x, c.idx).len() {
				variants.push((x, c.idx, age as u32));
			}
		}
	}
	out.counters.insert("probe:revoked_states_in_history".to_string(), variants.len() as u64);
	let mut pick = rng.fork("variants");
	let cap = match tier {
		Tier::Quick => 16,
		Tier::Thorough => 400,
	};
	if variants.len() > cap {
		pick.shuffle(&mut variants);
		variants.truncate(cap);
		variants.sort();
	} else if !variants.is_empty() {
		out.bump("probe:every_revoked_state_of_the_history_confirmed");
	}
	let mut plan_rng = rng.fork("plans");
	let liq = sched::gen_liq_plan(&base, &mut plan_rng);
	drop(base);
	let mut first_replay = None;
	for (x, chan, age) in variants.iter() {
		let mut trace = scenario.clone();
		let same_block = if plan_rng.chance(1, 2) { plan_rng.next_u64() as u32 } else { 0 };
		let later = if plan_rng.chance(2, 3) { plan_rng.next_u64() as u32 } else { 0 };
		trace.push(Action::Cheat { n: *x, chan: *chan, age: *age, same_block, later, v_late: plan_rng.below(4) as u8 });
		trace.push(liq.clone());
		trace.push(Action::Liquidate);
		let wd = World::new(cfg.clone());
		let sub = run_world(wd, None, Some(trace), seed);
		out.bump("revoked_states_explored");
		for (key, val) in sub.counters.iter() {
			if key.starts_with("fault:") || key.starts_with("probe:") || key.starts_with("oracle:") || key.starts_with("closure:") {
				*out.counters.entry(key.clone()).or_insert(0) += *val;
			}
		}
		out.history_fp = simcore::fnv_extend(out.history_fp, &sub.history_fp.to_le_bytes());
		out.steps += sub.steps;
		out.sim_blocks += sub.sim_blocks;
		out.sim_seconds += sub.sim_seconds;
		for he in sub.harness_errors.iter() {
			if out.harness_errors.len() < 3 {
				out.harness_errors.push(he.clone());
			}
		}
		for viol in sub.violations.iter() {
			let known = out.violations.iter().any(|v| v.property == viol.property && v.oracle == viol.oracle);
			if !known {
				out.violations.push(viol.clone());
				if first_replay.is_none() {
					first_replay = sub.replay.clone();
				}
			}
		}
		if out.sample.is_none() {
			out.sample = sub.sample.clone();
		}
	}
	out.nontrivial = out.counters.get("fault:revoked_commitment_confirmed").copied().unwrap_or(0) > 0;
	out.replay = first_replay;
	out
}

impl Sim for LnSim {
	fn name(&self) -> &'static str {
		"lnsim"
	}

	fn run(&self, profile: &str, seed: u64, tier: Tier) -> RunOutcome {
		if profile == "crashsweep" {
			return run_crash_sweep(seed, tier);
		}
		if profile == "justicesweep" {
			return run_justice_sweep(seed, tier);
		}
		let mut rng = Rng::new(seed);
		let cfg = sched::gen_config(profile, &mut rng, tier);
		let wd = World::new(cfg);
		run_world(wd, Some(rng), None, seed)
	}

	fn replay(&self, replay: &Value) -> RunOutcome {
		let cfg: Config = match serde_json::from_value(replay["config"].clone()) {
			Ok(c) => c,
			Err(e) => {
				let mut o = RunOutcome::default();
				o.harness_errors.push(format!("bad replay config: {}", e));
				return o;
			},
		};
		let trace: Vec<Action> = match serde_json::from_value(replay["trace"].clone()) {
			Ok(t) => t,
			Err(e) => {
				let mut o = RunOutcome::default();
				o.harness_errors.push(format!("bad replay trace: {}", e));
				return o;
			},
		};
		let wd = World::new(cfg);
		run_world(wd, None, Some(trace), 0)
	}

	fn components(&self) -> (Vec<String>, Vec<String>) {
		(
			vec![
				"ChannelManager".into(),
				"Channel state machine".into(),
				"ChannelMonitor".into(),
				"ChainMonitor".into(),
				"OnchainTxHandler / packages".into(),
				"KeysManager + InMemorySigner (inside LDK's policy-enforcing TestChannelSigner)".into(),
				"onion construction and peeling".into(),
				"OutboundPayments / inbound_payment".into(),
				"message (de)serialisation on every simulated wire hop".into(),
				"libsecp256k1".into(),
				"libbitcoinconsensus (script verification of every relayed transaction)".into(),
			],
			vec![
				"peer transport (per-direction FIFO queues owned by the scheduler)".into(),
				"chainmonitor::Persist (SimPersister: durable / in-flight blobs)".into(),
				"BroadcasterInterface (outbox relayed by the scheduler)".into(),
				"FeeEstimator".into(),
				"block chain, mempool and miner (ChainModel)".into(),
				"chain::Filter".into(),
				"Router (routes are built from the simulated topology)".into(),
				"application / event handler policy".into(),
				"Logger".into(),
			],
		)
	}
}
