//! Development driver: `codecsim_dev <profile> <first_seed> <count> [quick|thorough] [threads]`
//! runs seeds, prints violations, aggregated counters and runs/s. `--fp` prints one history
//! fingerprint per seed (for the determinism check); `--shrink` minimises the first failure.

use codecsim::CodecSim;
use simcore::runner::{install_panic_hook, run_isolated};
use simcore::{mix, RunOutcome, Sim, Tier};
use std::collections::BTreeMap;
use std::sync::atomic::{AtomicU64, Ordering};
use std::sync::Mutex;
use std::time::{Duration, Instant};

#[global_allocator]
static A: codecsim::allocguard::Guard = codecsim::allocguard::Guard;

fn main() {
	let args: Vec<String> = std::env::args().collect();
	let flags: Vec<&String> = args.iter().filter(|a| a.starts_with("--")).collect();
	let pos: Vec<&String> = args.iter().skip(1).filter(|a| !a.starts_with("--")).collect();
	let profile = pos.get(0).map(|s| s.as_str()).unwrap_or("stream").to_string();
	let first: u64 = pos.get(1).and_then(|s| s.parse().ok()).unwrap_or(0);
	let count: u64 = pos.get(2).and_then(|s| s.parse().ok()).unwrap_or(100);
	let tier = pos.get(3).and_then(|s| Tier::parse(s)).unwrap_or(Tier::Quick);
	let threads: u64 = pos.get(4).and_then(|s| s.parse().ok()).unwrap_or(16);
	let want_fp = flags.iter().any(|f| *f == "--fp");
	let want_shrink = flags.iter().any(|f| *f == "--shrink");
	let raw_seed = flags.iter().any(|f| *f == "--raw-seed");
	install_panic_hook();
	let next = AtomicU64::new(0);
	let results: Mutex<Vec<(u64, RunOutcome)>> = Mutex::new(Vec::new());
	let start = Instant::now();
	std::thread::scope(|s| {
		for _ in 0..threads {
			s.spawn(|| loop {
				let i = next.fetch_add(1, Ordering::Relaxed);
				if i >= count {
					break;
				}
				let seed = if raw_seed { first + i } else { mix(1, first + i) };
				let i = first + i;
				let p = profile.clone();
				let mut o = run_isolated(move || CodecSim.run(&p, seed, tier));
				o.seed = seed;
				let bad = !o.violations.is_empty() || !o.harness_errors.is_empty();
				if !bad {
					o.sample = None;
				}
				let mut g = results.lock().unwrap();
				g.push((i, o));
			});
		}
	});
	let wall = start.elapsed().as_secs_f64();
	let mut res = results.into_inner().unwrap();
	res.sort_by_key(|(i, _)| *i);
	if let Some((i, o)) = res.iter().find(|(_, o)| !o.violations.is_empty()) {
		println!("FIRST-VIOLATION at run index {} (run #{} of the batch), seed {}", i, i + 1 - first.min(*i), o.seed);
	}
	let res: Vec<RunOutcome> = res.into_iter().map(|(_, o)| o).collect();
	if want_fp {
		for o in res.iter() {
			println!("{} {:016x} {:016x}", o.seed, o.history_fp, o.interleaving_fp);
		}
		return;
	}
	let mut counters: BTreeMap<String, u64> = BTreeMap::new();
	let mut states = std::collections::BTreeSet::new();
	let mut inter = std::collections::BTreeSet::new();
	let (mut nontrivial, mut steps, mut viol, mut herr) = (0u64, 0u64, 0u64, 0u64);
	let mut first_fail: Option<RunOutcome> = None;
	for o in res.iter() {
		for (k, v) in o.counters.iter() {
			if k.starts_with("max:") {
				let e = counters.entry(k.clone()).or_insert(0);
				*e = (*e).max(*v);
			} else {
				*counters.entry(k.clone()).or_insert(0) += *v;
			}
		}
		states.extend(o.state_fps.iter().cloned());
		inter.insert(o.interleaving_fp);
		nontrivial += o.nontrivial as u64;
		steps += o.steps;
		for v in o.violations.iter() {
			viol += 1;
			if viol <= 12 {
				println!("VIOLATION seed {} step {} [{}] {}", o.seed, v.step, v.oracle, v.message);
			}
		}
		for e in o.harness_errors.iter() {
			herr += 1;
			if herr <= 12 {
				println!("HARNESS-ERROR seed {}: {}", o.seed, e);
			}
		}
		if !o.violations.is_empty() && first_fail.is_none() {
			first_fail = Some(o.clone());
		}
	}
	println!("runs {} nontrivial {} steps {} violations {} harness_errors {} distinct_states {} distinct_interleavings {}",
		res.len(), nontrivial, steps, viol, herr, states.len(), inter.len());
	println!("wall {:.2}s  {:.1} runs/s on {} threads", wall, res.len() as f64 / wall, threads);
	for (k, v) in counters.iter() {
		println!("  {:60} {}", k, v);
	}
	if let (true, Some(f)) = (want_shrink, first_fail) {
		let v = f.violations[0].clone();
		let rp = f.replay.clone().expect("failing run carries a replay");
		let r = CodecSim.replay(&rp);
		println!("replay reproduces same oracle: {}", r.violations.iter().any(|x| x.oracle == v.oracle));
		let n0 = rp["trace"].as_array().map(|a| a.len()).unwrap_or(0);
		let (min, spent) = simcore::shrink::shrink(&CodecSim, &rp, &v.property, &v.oracle, Duration::from_secs(30));
		let n1 = min["trace"].as_array().map(|a| a.len()).unwrap_or(0);
		println!("shrunk trace {} -> {} actions in {} replays", n0, n1, spent);
		println!("{}", serde_json::to_string(&min["trace"]).unwrap());
		let r2 = CodecSim.replay(&min);
		for x in r2.violations.iter() {
			println!("minimised replay: [{}] {}", x.oracle, x.message);
		}
	}
}
