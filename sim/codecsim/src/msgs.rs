//! One `Node` per peer message type: a seeded value generator that builds the message through its
//! public fields, plus the small structural model the oracles need (length of the mandatory
//! prefix, what follows it, where the u16 length prefixes and range-checked bytes are, how to
//! remove optional TLV fields). The model is written from the BOLT layouts, not from LDK's codecs.

use crate::gen::G;
use bitcoin::secp256k1;
use lightning::blinded_path::message::BlindedMessagePath;
use lightning::blinded_path::BlindedHop;
use lightning::ln::msgs::*;
use lightning::ln::onion_utils::AttributionData;
use lightning::onion_message::packet::Packet as OmPacket;
use lightning::routing::gossip::NodeAlias;
use lightning::types::features::{ChannelFeatures, ChannelTypeFeatures, InitFeatures, NodeFeatures};
use lightning::types::payment::{PaymentHash, PaymentPreimage};
use lightning::util::ser::{LengthReadable, Readable, Writeable};
use std::fmt::Debug;

#[derive(Clone, Copy, Debug, PartialEq, Eq)]
pub enum Tail {
	/// a BOLT-1 TLV stream follows the mandatory fields (possibly with no known types)
	Tlv,
	/// free-form bytes that are kept verbatim (`excess_data` of gossip messages)
	Excess,
	/// the codec stops after the mandatory fields; anything else in the frame is not looked at
	Unread,
}

pub struct Built<M> {
	pub m: M,
	/// length of the mandatory prefix of `encode(m)` according to the model
	pub mand: usize,
	/// `(offset of a big-endian u16 length/count prefix, end offset of what it governs)`
	pub prefixes: Vec<(usize, usize)>,
	/// offsets of u16 byte-length prefixes governing a sequence of self-delimiting records with no
	/// free-form remainder: a value one smaller makes the last record straddle the boundary
	pub strict: Vec<usize>,
	/// `(offset, value)`: writing `value` there must make decoding fail (bool/enum/key-prefix bytes)
	pub bad: Vec<(usize, u8)>,
	/// nested length-prefixed regions outside the TLV stream, `[start, end)`
	pub nested: Vec<(usize, usize)>,
}

impl<M> Built<M> {
	fn new(m: M, mand: usize) -> Self {
		Built { m, mand, prefixes: vec![], strict: vec![], bad: vec![], nested: vec![] }
	}
	fn prefix(mut self, off: usize, end: usize) -> Self {
		self.prefixes.push((off, end));
		self
	}
	fn strict(mut self, off: usize, yes: bool) -> Self {
		if yes {
			self.strict.push(off);
		}
		self
	}
	fn bad(mut self, off: usize, v: u8) -> Self {
		self.bad.push((off, v));
		self
	}
	fn nest(mut self, s: usize, e: usize) -> Self {
		if e > s {
			self.nested.push((s, e));
		}
		self
	}
	fn bad_keys(mut self, g: &mut G, first: usize, n: usize) -> Self {
		for i in 0..n {
			// a compressed key must start with 02 or 03
			let v = *g.r.pick(&[0u8, 1, 4, 5, 6, 7, 0x80, 0xff]);
			self.bad.push((first + 33 * i, v));
		}
		self
	}
}

pub trait Node: 'static {
	type M: Writeable + LengthReadable + PartialEq + Clone + Debug + lightning::ln::wire::Type;
	const NAME: &'static str;
	const TAIL: Tail;
	/// TLV types the message defines (for `Tail::Tlv`)
	const KNOWN: &'static [u64];
	fn gen(g: &mut G) -> Result<Built<Self::M>, String>;
	/// Clears every optional field whose TLV type is `>= from`.
	fn strip(_m: &mut Self::M, _from: u64) {}
	/// Clears the optional field with exactly this TLV type.
	fn clear(_m: &mut Self::M, _typ: u64) {}
	fn excess(_m: &mut Self::M) -> Option<&mut Vec<u8>> {
		None
	}
}

macro_rules! node {
	($n:ident, $m:ty, $tail:expr, [$($k:expr),*], $gen:expr
	 $(, clear: $clear:expr)? $(, excess: $ex:expr)?) => {
		pub struct $n;
		impl Node for $n {
			type M = $m;
			const NAME: &'static str = stringify!($n);
			const TAIL: Tail = $tail;
			const KNOWN: &'static [u64] = &[$($k),*];
			fn gen(g: &mut G) -> Result<Built<$m>, String> {
				let f: fn(&mut G) -> Result<Built<$m>, String> = $gen;
				f(g)
			}
			$(
			fn clear(m: &mut $m, typ: u64) {
				let f: fn(&mut $m, u64) = $clear;
				f(m, typ)
			}
			fn strip(m: &mut $m, from: u64) {
				let f: fn(&mut $m, u64) = $clear;
				for t in Self::KNOWN.iter() {
					if *t >= from {
						f(m, *t)
					}
				}
			}
			)?
			$(
			fn excess(m: &mut $m) -> Option<&mut Vec<u8>> {
				let f: fn(&mut $m) -> &mut Vec<u8> = $ex;
				Some(f(m))
			}
			)?
		}
	};
}

fn opt<T>(g: &mut G, f: impl FnOnce(&mut G) -> T) -> Option<T> {
	if g.coin() {
		Some(f(g))
	} else {
		None
	}
}

fn big(g: &G, large: usize, small: usize) -> usize {
	if g.big {
		large
	} else {
		small
	}
}

fn attribution(g: &mut G) -> Result<AttributionData, String> {
	// fields are private; the only public constructor is the codec itself (20*4 + 4*210 bytes)
	let b = g.bytes(920);
	<AttributionData as Readable>::read(&mut &b[..]).map_err(|e| format!("AttributionData: {:?}", e))
}

fn decode_plain<M: LengthReadable>(b: &[u8]) -> Result<M, String> {
	let mut s = b;
	M::read_from_fixed_length_buffer(&mut s).map_err(|e| format!("constructing value from bytes: {:?}", e))
}

// ---------------------------------------------------------------------------------------------

node!(InitN, Init, Tail::Tlv, [1, 3], |g| {
	let fb = g.feature_bytes();
	let fl = fb.len();
	let gl = fl.min(2);
	let n = g.vlen(big(g, 1900, 6));
	let m = Init {
		features: InitFeatures::from_le_bytes(fb),
		networks: opt(g, |g| (0..n).map(|_| g.chain_hash()).collect()),
		remote_network_address: opt(g, |g| g.sockaddr()),
	};
	let mand = 2 + gl + 2 + fl;
	Ok(Built::new(m, mand).prefix(0, 2 + gl).prefix(2 + gl, mand))
}, clear: |m, t| match t {
	1 => m.networks = None,
	3 => m.remote_network_address = None,
	_ => {},
});

node!(ErrorN, ErrorMessage, Tail::Unread, [], |g| {
	let data = g.string(big(g, 65000, 120));
	let mand = 34 + data.len();
	Ok(Built::new(ErrorMessage { channel_id: g.channel_id(), data }, mand).prefix(32, mand))
});

node!(WarningN, WarningMessage, Tail::Unread, [], |g| {
	let data = g.string(big(g, 65000, 120));
	let mand = 34 + data.len();
	Ok(Built::new(WarningMessage { channel_id: g.channel_id(), data }, mand).prefix(32, mand))
});

node!(PingN, Ping, Tail::Unread, [], |g| {
	let byteslen = g.vlen(big(g, 65000, 64)) as u16;
	let mand = 4 + byteslen as usize;
	Ok(Built::new(Ping { ponglen: g.u16v(), byteslen }, mand).prefix(2, mand))
});

node!(PongN, Pong, Tail::Unread, [], |g| {
	let byteslen = g.vlen(big(g, 65000, 64)) as u16;
	let mand = 2 + byteslen as usize;
	Ok(Built::new(Pong { byteslen }, mand).prefix(0, mand))
});

fn common_open(g: &mut G) -> CommonOpenChannelFields {
	CommonOpenChannelFields {
		chain_hash: g.chain_hash(),
		temporary_channel_id: g.channel_id(),
		funding_satoshis: g.u64v(),
		dust_limit_satoshis: g.u64v(),
		max_htlc_value_in_flight_msat: g.u64v(),
		htlc_minimum_msat: g.u64v(),
		commitment_feerate_sat_per_1000_weight: g.u32v(),
		to_self_delay: g.u16v(),
		max_accepted_htlcs: g.u16v(),
		funding_pubkey: g.pk(),
		revocation_basepoint: g.pk(),
		payment_basepoint: g.pk(),
		delayed_payment_basepoint: g.pk(),
		htlc_basepoint: g.pk(),
		first_per_commitment_point: g.pk(),
		channel_flags: g.u8v(),
		shutdown_scriptpubkey: opt(g, |g| g.script(if g.big { 2000 } else { 40 })),
		channel_type: opt(g, |g| ChannelTypeFeatures::from_le_bytes(g.feature_bytes())),
	}
}

fn common_accept(g: &mut G) -> CommonAcceptChannelFields {
	CommonAcceptChannelFields {
		temporary_channel_id: g.channel_id(),
		dust_limit_satoshis: g.u64v(),
		max_htlc_value_in_flight_msat: g.u64v(),
		htlc_minimum_msat: g.u64v(),
		minimum_depth: g.u32v(),
		to_self_delay: g.u16v(),
		max_accepted_htlcs: g.u16v(),
		funding_pubkey: g.pk(),
		revocation_basepoint: g.pk(),
		payment_basepoint: g.pk(),
		delayed_payment_basepoint: g.pk(),
		htlc_basepoint: g.pk(),
		first_per_commitment_point: g.pk(),
		shutdown_scriptpubkey: opt(g, |g| g.script(if g.big { 2000 } else { 40 })),
		channel_type: opt(g, |g| ChannelTypeFeatures::from_le_bytes(g.feature_bytes())),
	}
}

node!(OpenChannelN, OpenChannel, Tail::Tlv, [0, 1], |g| {
	let m = OpenChannel {
		common_fields: common_open(g),
		push_msat: g.u64v(),
		channel_reserve_satoshis: g.u64v(),
	};
	Ok(Built::new(m, 319).bad_keys(g, 120, 6))
}, clear: |m, t| match t {
	0 => m.common_fields.shutdown_scriptpubkey = None,
	1 => m.common_fields.channel_type = None,
	_ => {},
});

node!(AcceptChannelN, AcceptChannel, Tail::Tlv, [0, 1], |g| {
	let m = AcceptChannel { common_fields: common_accept(g), channel_reserve_satoshis: g.u64v() };
	Ok(Built::new(m, 270).bad_keys(g, 72, 6))
}, clear: |m, t| match t {
	0 => m.common_fields.shutdown_scriptpubkey = None,
	1 => m.common_fields.channel_type = None,
	_ => {},
});

node!(OpenChannelV2N, OpenChannelV2, Tail::Tlv, [0, 1, 2, 103], |g| {
	let m = OpenChannelV2 {
		common_fields: common_open(g),
		funding_feerate_sat_per_1000_weight: g.u32v(),
		locktime: g.u32v(),
		second_per_commitment_point: g.pk(),
		require_confirmed_inputs: opt(g, |_| ()),
		disable_channel_reserve: opt(g, |_| ()),
	};
	Ok(Built::new(m, 344).bad_keys(g, 112, 7))
}, clear: |m, t| match t {
	0 => m.common_fields.shutdown_scriptpubkey = None,
	1 => m.common_fields.channel_type = None,
	2 => m.require_confirmed_inputs = None,
	103 => m.disable_channel_reserve = None,
	_ => {},
});

node!(AcceptChannelV2N, AcceptChannelV2, Tail::Tlv, [0, 1, 2, 103], |g| {
	let m = AcceptChannelV2 {
		common_fields: common_accept(g),
		funding_satoshis: g.u64v(),
		second_per_commitment_point: g.pk(),
		require_confirmed_inputs: opt(g, |_| ()),
		disable_channel_reserve: opt(g, |_| ()),
	};
	Ok(Built::new(m, 303).bad_keys(g, 72, 7))
}, clear: |m, t| match t {
	0 => m.common_fields.shutdown_scriptpubkey = None,
	1 => m.common_fields.channel_type = None,
	2 => m.require_confirmed_inputs = None,
	103 => m.disable_channel_reserve = None,
	_ => {},
});

node!(FundingCreatedN, FundingCreated, Tail::Tlv, [], |g| {
	let m = FundingCreated {
		temporary_channel_id: g.channel_id(),
		funding_txid: g.txid(),
		funding_output_index: g.u16v(),
		signature: g.sig(),
	};
	Ok(Built::new(m, 130))
});

node!(FundingSignedN, FundingSigned, Tail::Tlv, [], |g| {
	Ok(Built::new(FundingSigned { channel_id: g.channel_id(), signature: g.sig() }, 96))
});

node!(ChannelReadyN, ChannelReady, Tail::Tlv, [1], |g| {
	let m = ChannelReady {
		channel_id: g.channel_id(),
		next_per_commitment_point: g.pk(),
		short_channel_id_alias: opt(g, |g| g.u64v()),
	};
	Ok(Built::new(m, 65).bad_keys(g, 32, 1))
}, clear: |m, t| if t == 1 { m.short_channel_id_alias = None });

node!(StfuN, Stfu, Tail::Tlv, [], |g| {
	let v = 2 + (g.r.below(254) as u8);
	Ok(Built::new(Stfu { channel_id: g.channel_id(), initiator: g.coin() }, 33).bad(32, v))
});

node!(SpliceInitN, SpliceInit, Tail::Tlv, [2], |g| {
	let m = SpliceInit {
		channel_id: g.channel_id(),
		funding_contribution_satoshis: g.i64v(),
		funding_feerate_per_kw: g.u32v(),
		locktime: g.u32v(),
		funding_pubkey: g.pk(),
		require_confirmed_inputs: opt(g, |_| ()),
	};
	Ok(Built::new(m, 81).bad_keys(g, 48, 1))
}, clear: |m, t| if t == 2 { m.require_confirmed_inputs = None });

node!(SpliceAckN, SpliceAck, Tail::Tlv, [2], |g| {
	let m = SpliceAck {
		channel_id: g.channel_id(),
		funding_contribution_satoshis: g.i64v(),
		funding_pubkey: g.pk(),
		require_confirmed_inputs: opt(g, |_| ()),
	};
	Ok(Built::new(m, 73).bad_keys(g, 40, 1))
}, clear: |m, t| if t == 2 { m.require_confirmed_inputs = None });

node!(SpliceLockedN, SpliceLocked, Tail::Tlv, [], |g| {
	Ok(Built::new(SpliceLocked { channel_id: g.channel_id(), splice_txid: g.txid() }, 64))
});

node!(TxAddInputN, TxAddInput, Tail::Tlv, [0], |g| {
	let prevtx = opt(g, |g| g.tx());
	let txlen = prevtx.as_ref().map(|t| bitcoin::consensus::encode::serialize(t).len()).unwrap_or(0);
	if txlen > 65000 {
		return Err("generated transaction too large".into());
	}
	let m = TxAddInput {
		channel_id: g.channel_id(),
		serial_id: g.u64v(),
		prevtx,
		prevtx_out: g.u32v(),
		sequence: g.u32v(),
		shared_input_txid: opt(g, |g| g.txid()),
	};
	Ok(Built::new(m, 50 + txlen).prefix(40, 42 + txlen).nest(42, 42 + txlen))
}, clear: |m, t| if t == 0 { m.shared_input_txid = None });

node!(TxAddOutputN, TxAddOutput, Tail::Tlv, [], |g| {
	let script = g.script(big(g, 60000, 40));
	let mand = 50 + script.len();
	let m = TxAddOutput { channel_id: g.channel_id(), serial_id: g.u64v(), sats: g.u64v(), script };
	Ok(Built::new(m, mand).prefix(48, mand))
});

node!(TxRemoveInputN, TxRemoveInput, Tail::Tlv, [], |g| {
	Ok(Built::new(TxRemoveInput { channel_id: g.channel_id(), serial_id: g.u64v() }, 40))
});

node!(TxRemoveOutputN, TxRemoveOutput, Tail::Tlv, [], |g| {
	Ok(Built::new(TxRemoveOutput { channel_id: g.channel_id(), serial_id: g.u64v() }, 40))
});

node!(TxCompleteN, TxComplete, Tail::Tlv, [], |g| {
	Ok(Built::new(TxComplete { channel_id: g.channel_id() }, 32))
});

node!(TxSignaturesN, TxSignatures, Tail::Tlv, [0], |g| {
	let n = g.vlen(big(g, 60, 4));
	let witnesses: Vec<bitcoin::Witness> = (0..n).map(|_| g.witness(5, if g.big { 200 } else { 72 })).collect();
	let wl: usize = witnesses.iter().map(|w| 2 + w.size()).sum();
	let m = TxSignatures {
		channel_id: g.channel_id(),
		tx_hash: g.txid(),
		witnesses,
		shared_input_signature: opt(g, |g| g.sig()),
	};
	Ok(Built::new(m, 66 + wl).prefix(64, 66 + wl))
}, clear: |m, t| if t == 0 { m.shared_input_signature = None });

node!(TxInitRbfN, TxInitRbf, Tail::Tlv, [0], |g| {
	let m = TxInitRbf {
		channel_id: g.channel_id(),
		locktime: g.u32v(),
		feerate_sat_per_1000_weight: g.u32v(),
		funding_output_contribution: opt(g, |g| g.i64v()),
	};
	Ok(Built::new(m, 40))
}, clear: |m, t| if t == 0 { m.funding_output_contribution = None });

node!(TxAckRbfN, TxAckRbf, Tail::Tlv, [0], |g| {
	let m = TxAckRbf { channel_id: g.channel_id(), funding_output_contribution: opt(g, |g| g.i64v()) };
	Ok(Built::new(m, 32))
}, clear: |m, t| if t == 0 { m.funding_output_contribution = None });

node!(TxAbortN, TxAbort, Tail::Tlv, [], |g| {
	let n = g.vlen(big(g, 65000, 64));
	let m = TxAbort { channel_id: g.channel_id(), data: g.bytes(n) };
	Ok(Built::new(m, 34 + n).prefix(32, 34 + n))
});

node!(ShutdownN, Shutdown, Tail::Tlv, [], |g| {
	let scriptpubkey = g.script(big(g, 65000, 40));
	let mand = 34 + scriptpubkey.len();
	Ok(Built::new(Shutdown { channel_id: g.channel_id(), scriptpubkey }, mand).prefix(32, mand))
});

node!(ClosingSignedN, ClosingSigned, Tail::Tlv, [1], |g| {
	let m = ClosingSigned {
		channel_id: g.channel_id(),
		fee_satoshis: g.u64v(),
		signature: g.sig(),
		fee_range: opt(g, |g| ClosingSignedFeeRange { min_fee_satoshis: g.u64v(), max_fee_satoshis: g.u64v() }),
	};
	Ok(Built::new(m, 104))
}, clear: |m, t| if t == 1 { m.fee_range = None });

node!(ClosingCompleteN, ClosingComplete, Tail::Tlv, [1, 2, 3], |g| {
	let a = g.script(40);
	let b = g.script(40);
	let (al, bl) = (a.len(), b.len());
	let m = ClosingComplete {
		channel_id: g.channel_id(),
		closer_scriptpubkey: a,
		closee_scriptpubkey: b,
		fee_satoshis: g.u64v(),
		locktime: g.u32v(),
		closer_output_only: opt(g, |g| g.sig()),
		closee_output_only: opt(g, |g| g.sig()),
		closer_and_closee_outputs: opt(g, |g| g.sig()),
	};
	Ok(Built::new(m, 48 + al + bl).prefix(32, 34 + al).prefix(34 + al, 36 + al + bl))
}, clear: |m, t| match t {
	1 => m.closer_output_only = None,
	2 => m.closee_output_only = None,
	3 => m.closer_and_closee_outputs = None,
	_ => {},
});

node!(ClosingSigN, ClosingSig, Tail::Tlv, [1, 2, 3], |g| {
	let a = g.script(40);
	let b = g.script(40);
	let (al, bl) = (a.len(), b.len());
	let m = ClosingSig {
		channel_id: g.channel_id(),
		closer_scriptpubkey: a,
		closee_scriptpubkey: b,
		fee_satoshis: g.u64v(),
		locktime: g.u32v(),
		closer_output_only: opt(g, |g| g.sig()),
		closee_output_only: opt(g, |g| g.sig()),
		closer_and_closee_outputs: opt(g, |g| g.sig()),
	};
	Ok(Built::new(m, 48 + al + bl).prefix(32, 34 + al).prefix(34 + al, 36 + al + bl))
}, clear: |m, t| match t {
	1 => m.closer_output_only = None,
	2 => m.closee_output_only = None,
	3 => m.closer_and_closee_outputs = None,
	_ => {},
});

node!(StartBatchN, StartBatch, Tail::Tlv, [1], |g| {
	let m = StartBatch { channel_id: g.channel_id(), batch_size: g.u16v(), message_type: opt(g, |g| g.u16v()) };
	Ok(Built::new(m, 34))
}, clear: |m, t| if t == 1 { m.message_type = None });

node!(UpdateAddHTLCN, UpdateAddHTLC, Tail::Tlv, [0, 65537, 75537, 106823], |g| {
	let mut hop_data = [0u8; 1300];
	hop_data.copy_from_slice(&g.bytes(1300));
	let m = UpdateAddHTLC {
		channel_id: g.channel_id(),
		htlc_id: g.u64v(),
		amount_msat: g.u64v(),
		payment_hash: PaymentHash(g.arr32()),
		cltv_expiry: g.u32v(),
		skimmed_fee_msat: opt(g, |g| g.u64v()),
		onion_routing_packet: OnionPacket {
			version: g.u8v(),
			// a bogus ephemeral key is representable on purpose (it is written as 33 zero bytes)
			public_key: if g.r.below(4) == 0 { Err(secp256k1::Error::InvalidPublicKey) } else { Ok(g.pk()) },
			hop_data,
			hmac: g.arr32(),
		},
		blinding_point: opt(g, |g| g.pk()),
		hold_htlc: opt(g, |_| ()),
		accountable: opt(g, |g| g.coin()),
	};
	Ok(Built::new(m, 1450))
}, clear: |m, t| match t {
	0 => m.blinding_point = None,
	65537 => m.skimmed_fee_msat = None,
	75537 => m.hold_htlc = None,
	106823 => m.accountable = None,
	_ => {},
});

node!(OnionMessageN, OnionMessage, Tail::Unread, [], |g| {
	let hl = match g.r.below(6) {
		0 => 0,
		1 => 1,
		2 => 1300,
		3 => if g.big { 32768 } else { 66 },
		4 => if g.big { 65434 } else { 300 },
		_ => g.vlen(big(g, 65434, 200)),
	};
	let m = OnionMessage {
		blinding_point: g.pk(),
		onion_routing_packet: OmPacket { version: g.u8v(), public_key: g.pk(), hop_data: g.bytes(hl), hmac: g.arr32() },
	};
	let l = 33 + 2 + 66 + hl;
	Ok(Built::new(m, l).prefix(33, l).nest(35, l).bad_keys(g, 0, 1).bad(36, 4))
});

node!(UpdateFulfillHTLCN, UpdateFulfillHTLC, Tail::Tlv, [1], |g| {
	let ad = if g.coin() { Some(attribution(g)?) } else { None };
	let m = UpdateFulfillHTLC {
		channel_id: g.channel_id(),
		htlc_id: g.u64v(),
		payment_preimage: PaymentPreimage(g.arr32()),
		attribution_data: ad,
	};
	Ok(Built::new(m, 72))
}, clear: |m, t| if t == 1 { m.attribution_data = None });

node!(PeerStorageN, PeerStorage, Tail::Tlv, [], |g| {
	let n = g.vlen(big(g, 65531, 64));
	Ok(Built::new(PeerStorage { data: g.bytes(n) }, 2 + n).prefix(0, 2 + n))
});

node!(PeerStorageRetrievalN, PeerStorageRetrieval, Tail::Tlv, [], |g| {
	let n = g.vlen(big(g, 65531, 64));
	Ok(Built::new(PeerStorageRetrieval { data: g.bytes(n) }, 2 + n).prefix(0, 2 + n))
});

node!(UpdateFailHTLCN, UpdateFailHTLC, Tail::Tlv, [1], |g| {
	// `reason` is pub(crate): the value is obtained by decoding bytes laid out by hand (BOLT-2:
	// channel_id, id, u16 len, reason, then TLVs), and its optional field set through the pub field.
	let n = match g.r.below(5) {
		0 => 0,
		1 => 256 + 36, // the usual 292-byte failure packet
		2 => if g.big { 65533 - 42 } else { 1 },
		_ => g.vlen(big(g, 65000, 300)),
	};
	let mut b = Vec::with_capacity(42 + n);
	b.extend_from_slice(&g.arr32());
	b.extend_from_slice(&g.u64v().to_be_bytes());
	b.extend_from_slice(&(n as u16).to_be_bytes());
	b.extend_from_slice(&g.bytes(n));
	let mut m: UpdateFailHTLC = decode_plain(&b)?;
	if m.channel_id.0[..] != b[..32] || m.htlc_id.to_be_bytes()[..] != b[32..40] {
		return Err("UpdateFailHTLC built from bytes has other public fields".into());
	}
	m.attribution_data = if g.coin() { Some(attribution(g)?) } else { None };
	Ok(Built::new(m, 42 + n).prefix(40, 42 + n))
}, clear: |m, t| if t == 1 { m.attribution_data = None });

node!(UpdateFailMalformedHTLCN, UpdateFailMalformedHTLC, Tail::Tlv, [], |g| {
	// `sha256_of_onion` is pub(crate); build the value by decoding a hand-laid-out encoding
	let mut b = Vec::with_capacity(74);
	b.extend_from_slice(&g.arr32());
	b.extend_from_slice(&g.u64v().to_be_bytes());
	b.extend_from_slice(&g.arr32());
	b.extend_from_slice(&g.u16v().to_be_bytes());
	let m: UpdateFailMalformedHTLC = decode_plain(&b)?;
	if m.failure_code.to_be_bytes()[..] != b[72..74] {
		return Err("UpdateFailMalformedHTLC built from bytes has other public fields".into());
	}
	Ok(Built::new(m, 74))
});

node!(CommitmentSignedN, CommitmentSigned, Tail::Tlv, [1], |g| {
	let n = g.vlen(big(g, 966, 6));
	let m = CommitmentSigned {
		channel_id: g.channel_id(),
		signature: g.sig(),
		htlc_signatures: (0..n).map(|_| g.sig()).collect(),
		funding_txid: opt(g, |g| g.txid()),
	};
	Ok(Built::new(m, 98 + 64 * n).prefix(96, 98 + 64 * n))
}, clear: |m, t| if t == 1 { m.funding_txid = None });

node!(RevokeAndACKN, RevokeAndACK, Tail::Tlv, [75537], |g| {
	let n = g.vlen(big(g, 20, 3));
	let paths = (0..n)
		.map(|_| {
			let hops = 1 + g.r.below(4) as usize;
			let blinded_hops: Vec<BlindedHop> = (0..hops)
				.map(|_| {
					let l = g.vlen(100);
					BlindedHop { blinded_node_id: g.pk(), encrypted_payload: g.bytes(l) }
				})
				.collect();
			let hops_v: Vec<BlindedHop> = blinded_hops;
			if g.r.below(3) == 0 {
				// introduction node given as (direction, scid): no public constructor, so lay the
				// bytes out by hand (BOLT-4 blinded path) and read them
				let mut b = vec![g.r.below(2) as u8];
				b.extend_from_slice(&g.u64v().to_be_bytes());
				b.extend_from_slice(&g.pk().serialize());
				b.push(hops_v.len() as u8);
				for h in hops_v.iter() {
					b.extend_from_slice(&h.blinded_node_id.serialize());
					b.extend_from_slice(&(h.encrypted_payload.len() as u16).to_be_bytes());
					b.extend_from_slice(&h.encrypted_payload);
				}
				let p = <BlindedMessagePath as Readable>::read(&mut &b[..]).map_err(|e| format!("BlindedMessagePath from bytes: {:?}", e))?;
				return Ok((g.u64v(), p));
			}
			Ok((g.u64v(), BlindedMessagePath::from_blinded_path(g.pk(), g.pk(), hops_v)))
		})
		.collect::<Result<Vec<_>, String>>()?;
	let m = RevokeAndACK {
		channel_id: g.channel_id(),
		per_commitment_secret: g.arr32(),
		next_per_commitment_point: g.pk(),
		release_htlc_message_paths: paths,
	};
	Ok(Built::new(m, 97).bad_keys(g, 64, 1))
}, clear: |m, t| if t == 75537 { m.release_htlc_message_paths = Vec::new() });

node!(UpdateFeeN, UpdateFee, Tail::Tlv, [], |g| {
	Ok(Built::new(UpdateFee { channel_id: g.channel_id(), feerate_per_kw: g.u32v() }, 36))
});

node!(ChannelReestablishN, ChannelReestablish, Tail::Tlv, [1, 5], |g| {
	let m = ChannelReestablish {
		channel_id: g.channel_id(),
		next_local_commitment_number: g.u64v(),
		next_remote_commitment_number: g.u64v(),
		your_last_per_commitment_secret: g.arr32(),
		my_current_per_commitment_point: g.pk(),
		next_funding: opt(g, |g| NextFunding { txid: g.txid(), retransmit_flags: g.u8v() }),
		my_current_funding_locked: opt(g, |g| FundingLocked { txid: g.txid(), retransmit_flags: g.u8v() }),
	};
	Ok(Built::new(m, 113).bad_keys(g, 80, 1))
}, clear: |m, t| match t {
	1 => m.next_funding = None,
	5 => m.my_current_funding_locked = None,
	_ => {},
});

node!(AnnouncementSignaturesN, AnnouncementSignatures, Tail::Tlv, [], |g| {
	let m = AnnouncementSignatures {
		channel_id: g.channel_id(),
		short_channel_id: g.u64v(),
		node_signature: g.sig(),
		bitcoin_signature: g.sig(),
	};
	Ok(Built::new(m, 168))
});

node!(ChannelAnnouncementN, ChannelAnnouncement, Tail::Excess, [], |g| {
	let fb = g.feature_bytes();
	let fl = fb.len();
	let el = g.vlen(big(g, 4000, 32));
	let m = ChannelAnnouncement {
		node_signature_1: g.sig(),
		node_signature_2: g.sig(),
		bitcoin_signature_1: g.sig(),
		bitcoin_signature_2: g.sig(),
		contents: UnsignedChannelAnnouncement {
			features: ChannelFeatures::from_le_bytes(fb),
			chain_hash: g.chain_hash(),
			short_channel_id: g.u64v(),
			node_id_1: g.node_id(),
			node_id_2: g.node_id(),
			bitcoin_key_1: g.node_id(),
			bitcoin_key_2: g.node_id(),
			excess_data: g.bytes(el),
		},
	};
	Ok(Built::new(m, 256 + 2 + fl + 32 + 8 + 132).prefix(256, 258 + fl))
}, excess: |m| &mut m.contents.excess_data);

node!(NodeAnnouncementN, NodeAnnouncement, Tail::Excess, [], |g| {
	let fb = g.feature_bytes();
	let fl = fb.len();
	let n = g.vlen(big(g, 30, 4));
	let addresses: Vec<SocketAddress> = (0..n).map(|_| g.sockaddr()).collect();
	// Bytes of the address region that are not known address kinds: by construction they start
	// with a descriptor byte LDK does not know (0 or >= 6), otherwise they would *be* addresses.
	let excess_address_data = if g.r.below(3) == 0 {
		let l = g.vlen(40);
		let mut v = g.bytes(1 + l);
		v[0] = if g.coin() { 0 } else { 6 + (g.r.below(250) as u8) };
		v
	} else {
		Vec::new()
	};
	let al: usize = addresses.iter().map(|a| a.encode().len()).sum::<usize>() + excess_address_data.len();
	let el = g.vlen(big(g, 4000, 32));
	let m = NodeAnnouncement {
		signature: g.sig(),
		contents: UnsignedNodeAnnouncement {
			features: NodeFeatures::from_le_bytes(fb),
			timestamp: g.u32v(),
			node_id: g.node_id(),
			rgb: [g.u8v(), g.u8v(), g.u8v()],
			alias: NodeAlias(g.arr32()),
			addresses,
			excess_address_data,
			excess_data: g.bytes(el),
		},
	};
	let alo = 64 + 2 + fl + 4 + 33 + 3 + 32;
	let strict = !m.contents.addresses.is_empty() && m.contents.excess_address_data.is_empty();
	Ok(Built::new(m, alo + 2 + al).prefix(64, 66 + fl).prefix(alo, alo + 2 + al).strict(alo, strict))
}, excess: |m| &mut m.contents.excess_data);

node!(ChannelUpdateN, ChannelUpdate, Tail::Excess, [], |g| {
	let el = g.vlen(big(g, 4000, 32));
	let m = ChannelUpdate {
		signature: g.sig(),
		contents: UnsignedChannelUpdate {
			chain_hash: g.chain_hash(),
			short_channel_id: g.u64v(),
			timestamp: g.u32v(),
			// bit 0 ("must be one") is documented as always set on the wire
			message_flags: g.u8v() | 1,
			channel_flags: g.u8v(),
			cltv_expiry_delta: g.u16v(),
			htlc_minimum_msat: g.u64v(),
			htlc_maximum_msat: g.u64v(),
			fee_base_msat: g.u32v(),
			fee_proportional_millionths: g.u32v(),
			excess_data: g.bytes(el),
		},
	};
	Ok(Built::new(m, 136))
}, excess: |m| &mut m.contents.excess_data);

node!(QueryShortChannelIdsN, QueryShortChannelIds, Tail::Unread, [], |g| {
	let n = g.vlen(big(g, 8000, 6));
	let m = QueryShortChannelIds { chain_hash: g.chain_hash(), short_channel_ids: (0..n).map(|_| g.u64v()).collect() };
	let v = 1 + (g.r.below(255) as u8);
	Ok(Built::new(m, 35 + 8 * n).prefix(32, 35 + 8 * n).bad(34, v))
});

node!(ReplyShortChannelIdsEndN, ReplyShortChannelIdsEnd, Tail::Tlv, [], |g| {
	let v = 2 + (g.r.below(254) as u8);
	Ok(Built::new(ReplyShortChannelIdsEnd { chain_hash: g.chain_hash(), full_information: g.coin() }, 33).bad(32, v))
});

node!(QueryChannelRangeN, QueryChannelRange, Tail::Tlv, [], |g| {
	let m = QueryChannelRange { chain_hash: g.chain_hash(), first_blocknum: g.u32v(), number_of_blocks: g.u32v() };
	Ok(Built::new(m, 40))
});

node!(ReplyChannelRangeN, ReplyChannelRange, Tail::Unread, [], |g| {
	let n = g.vlen(big(g, 8000, 6));
	let m = ReplyChannelRange {
		chain_hash: g.chain_hash(),
		first_blocknum: g.u32v(),
		number_of_blocks: g.u32v(),
		sync_complete: g.coin(),
		short_channel_ids: (0..n).map(|_| g.u64v()).collect(),
	};
	let v1 = 2 + (g.r.below(254) as u8);
	let v2 = 1 + (g.r.below(255) as u8);
	Ok(Built::new(m, 44 + 8 * n).prefix(41, 44 + 8 * n).bad(40, v1).bad(43, v2))
});

node!(GossipTimestampFilterN, GossipTimestampFilter, Tail::Tlv, [], |g| {
	let m = GossipTimestampFilter { chain_hash: g.chain_hash(), first_timestamp: g.u32v(), timestamp_range: g.u32v() };
	Ok(Built::new(m, 40))
});

/// Expands `$mac!(index, NodeType)` for every message type; the index is the stable `ty` used in
/// actions and replay files (append only).
#[macro_export]
macro_rules! for_each_node {
	($mac:ident) => {
		$mac! {
			0 => InitN, 1 => ErrorN, 2 => WarningN, 3 => PingN, 4 => PongN,
			5 => OpenChannelN, 6 => AcceptChannelN, 7 => OpenChannelV2N, 8 => AcceptChannelV2N,
			9 => FundingCreatedN, 10 => FundingSignedN, 11 => ChannelReadyN, 12 => StfuN,
			13 => SpliceInitN, 14 => SpliceAckN, 15 => SpliceLockedN, 16 => TxAddInputN,
			17 => TxAddOutputN, 18 => TxRemoveInputN, 19 => TxRemoveOutputN, 20 => TxCompleteN,
			21 => TxSignaturesN, 22 => TxInitRbfN, 23 => TxAckRbfN, 24 => TxAbortN, 25 => ShutdownN,
			26 => ClosingSignedN, 27 => ClosingCompleteN, 28 => ClosingSigN, 29 => StartBatchN,
			30 => UpdateAddHTLCN, 31 => OnionMessageN, 32 => UpdateFulfillHTLCN, 33 => PeerStorageN,
			34 => PeerStorageRetrievalN, 35 => UpdateFailHTLCN, 36 => UpdateFailMalformedHTLCN,
			37 => CommitmentSignedN, 38 => RevokeAndACKN, 39 => UpdateFeeN, 40 => ChannelReestablishN,
			41 => AnnouncementSignaturesN, 42 => ChannelAnnouncementN, 43 => NodeAnnouncementN,
			44 => ChannelUpdateN, 45 => QueryShortChannelIdsN, 46 => ReplyShortChannelIdsEndN,
			47 => QueryChannelRangeN, 48 => ReplyChannelRangeN, 49 => GossipTimestampFilterN
		}
	};
}

pub const NUM_TYPES: u16 = 50;
