import sys
pid, taken = sys.argv[1], sys.argv[2]
print(f"""You are helping test a verification effort for the Rust library rust-lightning (LDK). You have your own scratch git worktree of the repository at /tmp/wt/{pid} (work ONLY there; never touch /repo or /verif, never read anything under /verif). The sandbox has no network: always use `CARGO_NET_OFFLINE=true cargo ... --offline` and set `CARGO_TARGET_DIR=/tmp/wt/{pid}/target`. Use at most `-j 4` for cargo builds and `--test-threads 4` for test runs (other jobs share the machine).

The file /tmp/wt/{pid}/PROPERTY.txt contains the text of one semantic property of the library. Read it, then read the code it is anchored in.

Your task: write ONE realistic change (a plausible bug a developer could introduce: an off-by-one, a wrong comparison, a dropped or misplaced step, a wrong field, a state not reset/persisted, two sites that each look fine alone, ...) to the library's source that BREAKS this property, while
 (a) the workspace still compiles without new warnings (`cargo check -p lightning`, and any other crate you touch),
 (b) the existing unit tests of the crate(s) you touch still pass, unedited: run `CARGO_NET_OFFLINE=true CARGO_TARGET_DIR=/tmp/wt/{pid}/target cargo test --offline -j 4 -p lightning --lib -- --test-threads 4` (and the equivalent for any other crate you touch) and report the pass/fail counts. If some existing test fails with your change, pick a different change - do not edit existing tests,
 (c) the break needs something SPECIFIC to manifest - a particular interleaving of messages / monitor-update completions, a crash or restart at a particular point, a multi-step sequence of operations, an unusual but legal input or configuration, a reorg at a particular depth, or two cooperating sites - NOT something that ordinary use (a single plain payment, a plain close) would expose at once.

Ideas already taken for this property (do something clearly different, in a different function): {taken}

Then write a demonstration: a NEW test (new #[test] function appended to an existing test module inside the crate, e.g. in lightning/src/ln/*_tests.rs, using the crate's functional_test_utils) that PASSES on the unchanged code and FAILS with your change (or a small program with the same effect). Verify both directions yourself (git stash / apply the source change while keeping the test).

Deliver, in /tmp/wt/{pid}/OUT/ :
  patch.diff        - `git diff` of ONLY the library source change (not the demo test), appliable with `git apply` at the repository root on top of HEAD
  demo.diff         - `git diff` of ONLY the new demonstration test
  meta.json         - {{"property": "{pid}", "name": "<short-kebab-name>", "files": [...], "summary": "<what the change does and how it breaks the property>", "needs": "<what it takes to manifest>", "existing_tests": "<command you ran and pass/fail counts>", "demo": "<command to run the demo test; result without and with the change>"}}
Leave the worktree with both diffs applied. Do not commit. Keep total effort reasonable (aim to finish within ~45 minutes); if a first idea fails existing tests twice, choose a simpler, more localized one. In your final message, report the name, the summary, and whether (a), (b), (c) and the two-way demonstration were confirmed.""")
