//! The simulated network: `SimSocket` (the `SocketDescriptor` handed to the real `PeerManager`s),
//! one byte stream per direction of every connection, and the frame tracker that learns the
//! sender's framing from the `send_data` calls alone (no keys needed): `PeerManager` offers each
//! queued buffer (one handshake act or one encrypted message = 18-byte header + body + 16-byte MAC)
//! in full the first time and the unsent remainder afterwards.
//!
//! Nothing in here decides anything: how many bytes a socket accepts is a *credit* (`window`) set
//! by explicit scheduler actions, so a trace replays without the PRNG.

use lightning::ln::peer_handler::SocketDescriptor;
use simcore::fnv_extend;
use std::cell::RefCell;
use std::hash::{Hash, Hasher};
use std::rc::Rc;

pub const ACT_ONE_LEN: usize = 50;
pub const ACT_TWO_LEN: usize = 50;
pub const ACT_THREE_LEN: usize = 66;
pub const HDR_LEN: usize = 18;
pub const MAC_LEN: usize = 16;
pub const BIG_WINDOW: usize = 1 << 40;

#[derive(Clone, Copy, Debug, PartialEq, Eq)]
pub enum Owner {
	Node(usize),
	Raw,
}

#[derive(Clone, Copy, Debug, PartialEq, Eq)]
pub enum CloseReason {
	/// the scheduler cut the pipe on this side (`socket_disconnected`)
	Cut,
	/// the other side had closed; this side was told (`socket_disconnected`)
	PeerClosed,
	/// `disconnect_socket` from inside `timer_tick_occurred` (ping / handshake timeout)
	Timeout,
	/// the bytes this side received had diverged from what the peer sent
	Tamper,
	/// the raw adversary sent something the protocol answers with a disconnect
	AdvKill,
	/// the adversary stream is in a state the model makes no liveness claim about
	AdvUnsure,
	/// `disconnect_by_node_id` requested by the scheduler (the application)
	App,
	/// none of the above: a violation was reported
	Spurious,
}

/// One direction of a connection: the bytes the owner of a socket wrote.
pub struct Stream {
	/// Everything the sender handed to the network, in order (never edited).
	pub orig: Vec<u8>,
	/// End offsets (in `orig` coordinates) of the authenticated units: each act, each 18-byte
	/// length header, each body+MAC. May run ahead of `orig.len()` for a partially written buffer.
	pub units: Vec<usize>,
	/// `(start, end)` of every encrypted message frame (not the acts).
	pub frames: Vec<(usize, usize)>,
	/// Number of buffers begun / fully accepted (acts included).
	pub bufs_started: u64,
	pub bufs_completed: u64,
	/// remaining bytes of the buffer currently being written (0 = at a buffer boundary)
	pub cur_remaining: usize,
	/// In-flight bytes (possibly tampered); `head` is the index of the first undelivered one.
	pub inflight: Vec<u8>,
	pub head: usize,
	/// Number of bytes handed to the receiver so far.
	pub delivered: usize,
	pub tampered: bool,
	pub fault_kinds: Vec<&'static str>,
	/// First offset at which the receiver got a byte the sender had not sent at that offset.
	pub diverged_at: Option<usize>,
	/// End of the authenticated unit containing `diverged_at` (receiver must have dropped the
	/// connection once this many bytes were delivered).
	pub must_close_by: usize,
	/// Upper bound on handler messages the receiver may ever have got on this connection.
	pub recv_limit: u64,
	/// After bytes "from the future" were injected the network swallows what the sender writes.
	pub frozen: bool,
	/// bytes accepted from the sender after the stream was frozen (never delivered)
	pub swallowed: usize,
	/// `(offset, unit_end)`: the sender itself wrote unframed garbage at `offset`; the receiver's
	/// authenticated unit that contains it ends at `unit_end`
	pub semantic_div: Option<(usize, usize)>,
	/// true for the initiator's stream (act one, act three, frames); false: act two, frames
	pub initiator: bool,
}

impl Stream {
	pub fn new(initiator: bool) -> Stream {
		Stream {
			orig: Vec::new(),
			units: Vec::new(),
			frames: Vec::new(),
			bufs_started: 0,
			bufs_completed: 0,
			cur_remaining: 0,
			inflight: Vec::new(),
			head: 0,
			delivered: 0,
			tampered: false,
			fault_kinds: Vec::new(),
			diverged_at: None,
			must_close_by: 0,
			recv_limit: 0,
			frozen: false,
			swallowed: 0,
			semantic_div: None,
			initiator,
		}
	}

	pub fn inflight_len(&self) -> usize {
		self.inflight.len() - self.head
	}

	/// Number of handshake acts in this direction.
	pub fn n_acts(&self) -> u64 {
		if self.initiator {
			2
		} else {
			1
		}
	}

	/// Length of the unit the receiver expects for the buffer with index `idx`'s first unit.
	fn first_unit_len(&self, idx: u64) -> usize {
		if self.initiator {
			match idx {
				0 => ACT_ONE_LEN,
				1 => ACT_THREE_LEN,
				_ => HDR_LEN,
			}
		} else {
			match idx {
				0 => ACT_TWO_LEN,
				_ => HDR_LEN,
			}
		}
	}

	/// Registers a new buffer of `len` bytes starting at the current end of the sender's output.
	/// Returns false if the length is impossible for its position (harness/PeerManager contract).
	pub fn begin_buffer(&mut self, len: usize) -> bool {
		let start = self.sent_total();
		let idx = self.bufs_started;
		self.bufs_started += 1;
		self.cur_remaining = len;
		if idx < self.n_acts() {
			self.units.push(start + len);
			len == self.first_unit_len(idx)
		} else {
			self.units.push(start + HDR_LEN);
			self.units.push(start + len);
			self.frames.push((start, start + len));
			len >= HDR_LEN + MAC_LEN
		}
	}

	/// Total bytes accepted from the sender (including swallowed ones when frozen).
	pub fn sent_total(&self) -> usize {
		self.orig.len() + self.swallowed
	}

	/// Appends accepted bytes.
	pub fn push(&mut self, data: &[u8]) {
		if self.frozen {
			self.swallowed += data.len();
		} else {
			self.orig.extend_from_slice(data);
			self.inflight.extend_from_slice(data);
		}
		debug_assert!(self.cur_remaining >= data.len());
		self.cur_remaining -= data.len();
		if self.cur_remaining == 0 {
			self.bufs_completed += 1;
		}
	}

	/// Appends bytes that are not part of any buffer the receiver could frame.
	pub fn push_unframed(&mut self, data: &[u8]) {
		if self.frozen {
			self.swallowed += data.len();
		} else {
			self.orig.extend_from_slice(data);
			self.inflight.extend_from_slice(data);
		}
	}

	/// End of the unit that contains stream offset `d` (by the sender's framing), or, when `d` is at
	/// the very end of everything the sender framed, the end of the unit the receiver expects next.
	pub fn unit_end_after(&self, d: usize) -> usize {
		// units is sorted ascending
		match self.units.iter().find(|e| **e > d) {
			Some(e) => *e,
			None => d + self.first_unit_len(self.bufs_started),
		}
	}

	/// Takes up to `n` in-flight bytes for delivery. Compares them with what the sender wrote and
	/// records the first divergence. Returns the bytes and the number of complete frames that end
	/// in `(delivered_before, min(delivered_after, diverged_at)]`.
	pub fn take(&mut self, n: usize) -> Vec<u8> {
		let n = n.min(self.inflight_len());
		let bytes = self.inflight[self.head..self.head + n].to_vec();
		self.head += n;
		if self.head > 1 << 16 && self.head * 2 > self.inflight.len() {
			self.inflight.drain(..self.head);
			self.head = 0;
		}
		if self.head == self.inflight.len() {
			self.inflight.clear();
			self.head = 0;
		}
		bytes
	}

	pub fn frames_ending_in(&self, lo_excl: usize, hi_incl: usize) -> u64 {
		// frames are few per delivery window; scan from the back
		let mut c = 0;
		for (_, e) in self.frames.iter().rev() {
			if *e <= lo_excl {
				break;
			}
			if *e <= hi_incl {
				c += 1;
			}
		}
		c
	}
}

pub struct Sock {
	pub id: u32,
	pub owner: Owner,
	pub open: bool,
	pub reason: Option<CloseReason>,
	/// bytes `send_data` may still accept
	pub window: usize,
	/// the last `send_data` returned less than it was offered: a `write_buffer_space_avail` is owed
	pub short_write: bool,
	/// a `send_data` returned short since the last `write_buffer_space_avail`: the driver owes one
	pub wbsa_owed: bool,
	/// the `continue_read` flag of the most recent `send_data`
	pub continue_read: bool,
	/// the owner's handlers saw `peer_connected` for this connection
	pub connected: bool,
	pub was_connected: bool,
	/// what this socket's owner wrote
	pub out: Stream,
	/// messages the owner's handlers handed to its `PeerManager` for this peer while connected
	pub handed_count: u64,
	/// index into the per-pair logs at connection creation
	pub recv_base: usize,
	pub handed_base: usize,
	pub send_calls: u64,
	pub pause_seen: bool,
}

#[derive(Clone, Copy, Debug)]
pub enum NetEvent {
	/// `disconnect_socket` was called on this socket
	DisconnectCalled(u32),
}

pub struct Net {
	pub socks: Vec<Sock>,
	pub events: Vec<NetEvent>,
	pub hist: u64,
	/// contract breaches seen inside `send_data` (reported by the world after the call)
	pub problems: Vec<String>,
}

impl Net {
	pub fn new() -> Net {
		Net { socks: Vec::new(), events: Vec::new(), hist: 0xcbf29ce484222325, problems: Vec::new() }
	}

	pub fn add_sock(&mut self, owner: Owner, initiator: bool, window: usize) -> u32 {
		let id = self.socks.len() as u32;
		self.socks.push(Sock {
			id,
			owner,
			open: true,
			reason: None,
			window,
			short_write: false,
			wbsa_owed: false,
			continue_read: true,
			connected: false,
			was_connected: false,
			out: Stream::new(initiator),
			handed_count: 0,
			recv_base: 0,
			handed_base: 0,
			send_calls: 0,
			pause_seen: false,
		});
		id
	}

	fn on_send(&mut self, id: u32, data: &[u8], continue_read: bool) -> usize {
		let s = &mut self.socks[id as usize];
		s.send_calls += 1;
		s.continue_read = continue_read;
		if !continue_read {
			s.pause_seen = true;
		}
		let mut h = self.hist;
		h = fnv_extend(h, &[0x51, continue_read as u8]);
		h = fnv_extend(h, &id.to_le_bytes());
		h = fnv_extend(h, &(data.len() as u64).to_le_bytes());
		if data.is_empty() {
			self.hist = h;
			return 0;
		}
		if !s.open {
			// "possibly 0 if the socket has since disconnected"
			self.hist = h;
			s.short_write = true;
			s.wbsa_owed = true;
			return 0;
		}
		if s.out.cur_remaining != 0 && s.out.cur_remaining != data.len() {
			self.problems.push(format!(
				"socket {}: send_data offered {} bytes but {} bytes of the partially written buffer remain",
				id,
				data.len(),
				s.out.cur_remaining
			));
		}
		let n = data.len().min(s.window);
		if n > 0 {
			if s.out.cur_remaining == 0 || s.out.cur_remaining != data.len() {
				if !s.out.begin_buffer(data.len()) {
					self.problems.push(format!(
						"socket {}: buffer #{} has impossible length {}",
						id,
						s.out.bufs_started - 1,
						data.len()
					));
				}
			}
			s.out.push(&data[..n]);
			s.window -= n;
			h = fnv_extend(h, &data[..n]);
		}
		s.short_write = n < data.len();
		if s.short_write {
			s.wbsa_owed = true;
		}
		h = fnv_extend(h, &(n as u64).to_le_bytes());
		self.hist = h;
		n
	}

	fn on_disconnect(&mut self, id: u32) {
		self.hist = fnv_extend(self.hist, &[0xd1]);
		self.hist = fnv_extend(self.hist, &id.to_le_bytes());
		self.events.push(NetEvent::DisconnectCalled(id));
	}
}

#[derive(Clone)]
pub struct SimSocket {
	pub id: u32,
	pub net: Rc<RefCell<Net>>,
}

impl PartialEq for SimSocket {
	fn eq(&self, o: &SimSocket) -> bool {
		self.id == o.id
	}
}
impl Eq for SimSocket {}
impl Hash for SimSocket {
	fn hash<H: Hasher>(&self, h: &mut H) {
		self.id.hash(h)
	}
}

impl SocketDescriptor for SimSocket {
	fn send_data(&mut self, data: &[u8], continue_read: bool) -> usize {
		self.net.borrow_mut().on_send(self.id, data, continue_read)
	}
	fn disconnect_socket(&mut self) {
		self.net.borrow_mut().on_disconnect(self.id)
	}
}
