//! Which simulations, profiles and run counts make up each registered check.

use simcore::runner::{Job, Plan};
use simcore::Tier;

fn job(sim: &str, profile: &str, runs: u64) -> Job {
	Job { sim: sim.to_string(), profile: profile.to_string(), runs, exe: None }
}

/// Worker executable of simulations built in a separate cargo workspace.
pub fn external_exe(sim: &str, verif_dir: &str) -> Option<String> {
	match sim {
		"storesim" => Some(format!("{}/sim-store/target/release/store_worker", verif_dir)),
		_ => None,
	}
}

fn xjob(sim: &str, profile: &str, runs: u64, verif_dir: &str) -> Job {
	Job { sim: sim.to_string(), profile: profile.to_string(), runs, exe: external_exe(sim, verif_dir) }
}

pub fn plan_for(prop: &str, tier: Tier, seed: u64, verif_dir: &str) -> Option<Plan> {
	let q = tier == Tier::Quick;
	let scale: u64 = std::env::var("VERIF_SCALE").ok().and_then(|s| s.parse().ok()).unwrap_or(100);
	let n = |quick: u64, thorough: u64| -> u64 { ((if q { quick } else { thorough }) * scale / 100).max(1) };
	let t_assumptions = vec![
		"T1-T5 of DESIGN.md §3.3 (block pacing, confirmation bound, downtime bound, reorg bound, fee-estimator sanity) are enforced by the scheduler".to_string(),
		"library built with feature _test_utils (MPP_TIMEOUT_TICKS=1, gossip too-old check off, extra visibility) and --cfg ldk_verif hooks H1-H3".to_string(),
		"reference models (wire ledger, chain/mempool) are part of the trusted base".to_string(),
	];
	let plan = match prop {
		"C01" => Plan {
			property: "C01".into(),
			tier,
			seed,
			jobs: vec![job("lnsim", "offchain", n(1500, 40000))],
			level: "exploration".into(),
			rule: "one evaluation = one seeded simulated run of profile `offchain` (2-3 real nodes, 1-4 channels, random interleaving of individually delivered messages, sends at boundary amounts, claims, fails, fee updates, disconnects/reconnects, optional cooperative close) followed by a settle phase; non-trivial = at least one payment reached a terminal event or one fault fired; distinct = distinct hash of the executed (action kind, actor) sequence".into(),
			assumptions: t_assumptions.clone(),
			probes: vec![
				"dust_htlc_in_commitment".into(),
				"commitment_signed_retransmitted".into(),
				"send_at_limit_boundary".into(),
				"closing_tx_signed".into(),
				"zero_fee_trimmed_sum_over_240".into(),
				"timeout_disconnect".into(),
			],
			exhaustive: false,
		},
		"C02" => Plan {
			property: "C02".into(),
			tier,
			seed,
			jobs: vec![job("lnsim", "forward", n(600, 20000))],
			level: "exploration".into(),
			rule: "TODO".into(),
			assumptions: t_assumptions.clone(),
			probes: vec![],
			exhaustive: false,
		},
		"C03" => Plan {
			property: "C03".into(),
			tier,
			seed,
			jobs: vec![job("lnsim", "forward", n(600, 20000))],
			level: "exploration".into(),
			rule: "TODO".into(),
			assumptions: t_assumptions.clone(),
			probes: vec![],
			exhaustive: false,
		},
		"C04" => Plan {
			property: "C04".into(),
			tier,
			seed,
			jobs: vec![job("lnsim", "receive", n(600, 20000)), job("lnsim", "offchain", n(1500, 20000))],
			level: "exploration".into(),
			rule: "TODO".into(),
			assumptions: t_assumptions.clone(),
			probes: vec![],
			exhaustive: false,
		},
		"C05" => Plan {
			property: "C05".into(),
			tier,
			seed,
			jobs: vec![
				job("lnsim", "offchain", n(2500, 40000)),
				job("lnsim", "forward", n(400, 10000)),
				job("lnsim", "crash", n(400, 10000)),
			],
			level: "exploration".into(),
			rule: "TODO".into(),
			assumptions: t_assumptions.clone(),
			probes: vec![],
			exhaustive: false,
		},
		"C07" => Plan {
			property: "C07".into(),
			tier,
			seed,
			jobs: vec![job("lnsim", "onchain", n(600, 20000)), job("lnsim", "forward", n(300, 5000))],
			level: "exploration".into(),
			rule: "TODO".into(),
			assumptions: t_assumptions.clone(),
			probes: vec![],
			exhaustive: false,
		},
		"C09" => Plan {
			property: "C09".into(),
			tier,
			seed,
			jobs: vec![job("lnsim", "asyncpersist", n(600, 20000))],
			level: "exploration".into(),
			rule: "TODO".into(),
			assumptions: t_assumptions.clone(),
			probes: vec![],
			exhaustive: false,
		},
		"C10" => Plan {
			property: "C10".into(),
			tier,
			seed,
			jobs: vec![job("lnsim", "crashsweep", n(16, 400)), job("lnsim", "crash", n(400, 20000))],
			level: "fault_enumeration".into(),
			rule: "TODO".into(),
			assumptions: t_assumptions.clone(),
			probes: vec![],
			exhaustive: false,
		},
		"C11" => Plan {
			property: "C11".into(),
			tier,
			seed,
			jobs: vec![job("lnsim", "chainstyle", n(500, 20000))],
			level: "exploration".into(),
			rule: "TODO".into(),
			assumptions: t_assumptions.clone(),
			probes: vec![],
			exhaustive: false,
		},
		"C12" => Plan {
			property: "C12".into(),
			tier,
			seed,
			jobs: vec![job("lnsim", "roundtrip", n(250, 8000))],
			level: "exploration".into(),
			rule: "TODO".into(),
			assumptions: t_assumptions.clone(),
			probes: vec![],
			exhaustive: false,
		},
		"C13" => Plan {
			property: "C13".into(),
			tier,
			seed,
			jobs: vec![job("codecsim", "stream", n(30000, 100000)), job("codecsim", "ioskip", n(1000, 5000))],
			level: "exploration".into(),
			rule: "TODO".into(),
			assumptions: t_assumptions.clone(),
			probes: vec![],
			exhaustive: false,
		},
		"C15" => Plan {
			property: "C15".into(),
			tier,
			seed,
			jobs: vec![
				job("transportsim", "mix", n(25000, 400000)),
				job("transportsim", "rotation", n(1000, 4000)),
				job("transportsim", "adversary", n(8000, 40000)),
			],
			level: "exploration".into(),
			rule: "TODO".into(),
			assumptions: t_assumptions.clone(),
			probes: vec![],
			exhaustive: false,
		},
		"C20" => Plan {
			property: "C20".into(),
			tier,
			seed,
			jobs: vec![job("blocksyncsim", "sync", n(20000, 100000)), job("blocksyncsim", "tiplies", n(2000, 10000))],
			level: "exploration".into(),
			rule: "TODO".into(),
			assumptions: t_assumptions.clone(),
			probes: vec![],
			exhaustive: false,
		},
		"C17" => Plan {
			property: "C17".into(),
			tier,
			seed,
			jobs: vec![job("gossipsim", "mixed", n(20000, 300000))],
			level: "exploration".into(),
			rule: "TODO".into(),
			assumptions: t_assumptions.clone(),
			probes: vec![],
			exhaustive: false,
		},
		"C19" => Plan {
			property: "C19".into(),
			tier,
			seed,
			jobs: vec![
				xjob("storesim", "v1", n(12000, 300000), verif_dir),
				xjob("storesim", "v2", n(12000, 300000), verif_dir),
				job("persistsim", "sync", n(2000, 40000)),
				job("persistsim", "async-fifo", n(1000, 20000)),
				job("persistsim", "async", n(200, 2000)),
			],
			level: "exploration".into(),
			rule: "TODO".into(),
			assumptions: t_assumptions.clone(),
			probes: vec![],
			exhaustive: false,
		},
		_ => return None,
	};
	Some(plan)
}
