//! Wire ledger: an independent model of the BOLT-2 update protocol and the BOLT-3 commitment
//! contents (DESIGN §4.1). It is driven only by the messages each side *emits* (in emission
//! order) and computes, for every `commitment_signed`, what the commitment being signed must
//! contain. Written from the BOLT text; shares no code with `sign/tx_builder.rs`.

use crate::infra::CommitSummary;
use std::collections::BTreeMap;

pub const INITIAL_COMMITMENT_NUMBER: u64 = (1 << 48) - 1;

#[derive(Clone, Debug, PartialEq, Eq)]
pub enum UpdKind {
	Add { id: u64, amount_msat: u64, hash: [u8; 32], cltv: u32 },
	Fulfill { id: u64 },
	Fail { id: u64 },
	Fee { rate: u32 },
}

#[derive(Clone, Debug)]
pub struct Upd {
	pub kind: UpdKind,
	/// index (1-based) of the sender's commitment_signed that first covers this update
	pub cs_index: u64,
}

#[derive(Clone, Debug, Default)]
pub struct Side {
	/// updates covered by one of this side's commitment_signed messages
	pub updates: Vec<Upd>,
	/// updates emitted since this side's last commitment_signed
	pub pending: Vec<UpdKind>,
	/// number of distinct commitment_signed emitted
	pub cs_count: u64,
	/// distinct revoke_and_ack secrets emitted, in order
	pub raa_secrets: Vec<[u8; 32]>,
	pub dust_limit_sat: Option<u64>,
	pub shutdown_sent: bool,
	/// this side has sent shutdown in this or an earlier connection
	pub shutdown_sent_ever: bool,
	/// htlc ids of update_add_htlc messages this side has ever put on the wire
	pub add_ids_emitted: std::collections::BTreeSet<u64>,
}

#[derive(Clone, Debug, PartialEq, Eq)]
pub struct ExpHtlc {
	pub offered_by_broadcaster: bool,
	pub amount_msat: u64,
	pub cltv: u32,
	pub hash: [u8; 32],
}

#[derive(Clone, Debug, PartialEq, Eq)]
pub struct ExpectedCommit {
	pub feerate: u32,
	pub nondust: Vec<ExpHtlc>,
	pub trimmed: Vec<ExpHtlc>,
	pub to_broadcaster_sat: u64,
	pub to_countersignatory_sat: u64,
	pub anchors_total_sat: u64,
	pub outputs_sum_sat: u64,
	pub broadcaster_msat: u64,
	pub countersignatory_msat: u64,
}

pub struct Ledger {
	pub chan: usize,
	/// node indices: `a` opened (and funds) the channel
	pub a: usize,
	pub b: usize,
	pub value_sat: u64,
	pub push_msat: u64,
	pub funding: Option<bitcoin::OutPoint>,
	pub anchors: bool,
	pub zero_fee_commitments: bool,
	pub initial_feerate: u32,
	pub have_params: bool,
	pub sides: [Side; 2],
	/// (signer side, cs index) -> what was expected, for retransmission equality
	pub expected: BTreeMap<(usize, u64), ExpectedCommit>,
	pub original_updates: BTreeMap<(usize, u64), Vec<UpdKind>>,
	/// set when the model can no longer follow the channel (crash of a node, force close):
	/// strict checks stop, nothing is asserted from then on
	pub disabled: bool,
}

impl Ledger {
	pub fn new(chan: usize, a: usize, b: usize, value_sat: u64, push_msat: u64) -> Ledger {
		Ledger {
			chan,
			a,
			b,
			value_sat,
			push_msat,
			funding: None,
			anchors: false,
			zero_fee_commitments: false,
			initial_feerate: 0,
			have_params: false,
			sides: [Side::default(), Side::default()],
			expected: BTreeMap::new(),
			original_updates: BTreeMap::new(),
			disabled: false,
		}
	}

	pub fn side_of(&self, node: usize) -> Option<usize> {
		if node == self.a {
			Some(0)
		} else if node == self.b {
			Some(1)
		} else {
			None
		}
	}

	pub fn emit_update(&mut self, side: usize, k: UpdKind) {
		self.sides[side].pending.push(k);
	}

	/// A revoke_and_ack left `side`. Retransmissions carry the same secret and are not counted.
	pub fn emit_raa(&mut self, side: usize, secret: [u8; 32]) {
		if !self.sides[side].raa_secrets.contains(&secret) {
			self.sides[side].raa_secrets.push(secret);
		}
	}

	/// Number of update_add_htlc / update_fee messages `side` has put on the wire that the other
	/// side had not yet acknowledged with a revoke_and_ack: updates that "cross" with whatever the
	/// other side sends at the same time.
	pub fn unacked_adds_or_fees(&self, side: usize) -> usize {
		let acked = self.sides[1 - side].raa_secrets.len() as u64;
		let is_add = |k: &UpdKind| matches!(k, UpdKind::Add { .. } | UpdKind::Fee { .. });
		self.sides[side].updates.iter().filter(|u| is_add(&u.kind) && u.cs_index > acked).count()
			+ self.sides[side].pending.iter().filter(|k| is_add(k)).count()
	}

	/// Number of update_fulfill_htlc messages `side` has sent that the other side has not yet
	/// acknowledged with a revoke_and_ack.
	pub fn unacked_fulfills(&self, side: usize) -> usize {
		let acked = self.sides[1 - side].raa_secrets.len() as u64;
		let is_f = |k: &UpdKind| matches!(k, UpdKind::Fulfill { .. });
		self.sides[side].updates.iter().filter(|u| is_f(&u.kind) && u.cs_index > acked).count()
			+ self.sides[side].pending.iter().filter(|k| is_f(k)).count()
	}

	/// On disconnection updates not covered by a commitment_signed are forgotten by both peers.
	pub fn disconnect(&mut self) {
		self.sides[0].pending.clear();
		self.sides[1].pending.clear();
		// shutdown is retransmitted on every reconnection; order is judged per connection
		self.sides[0].shutdown_sent = false;
		self.sides[1].shutdown_sent = false;
	}

	/// A commitment_signed left `side`; `number` is the commitment number it signs (known from
	/// the signer seam through the signature). Returns Err(description) on a protocol violation,
	/// Ok(Some(expected)) for a new commitment, Ok(None) for an identical retransmission.
	pub fn emit_cs(&mut self, side: usize, number: u64) -> Result<Option<ExpectedCommit>, String> {
		let k = INITIAL_COMMITMENT_NUMBER - number;
		let cnt = self.sides[side].cs_count;
		if k == 0 || k > cnt + 1 {
			return Err(format!(
				"commitment_signed for number {} (index {}) but {} were sent before: numbers must advance by exactly one",
				number, k, cnt
			));
		}
		if k <= cnt {
			// retransmission: the updates re-sent with it must be the original ones
			let pend = std::mem::take(&mut self.sides[side].pending);
			if let Some(orig) = self.original_updates.get(&(side, k)) {
				if *orig != pend {
					return Err(format!(
						"retransmitted commitment_signed #{} covers {:?}, originally {:?}",
						k, pend, orig
					));
				}
			}
			return Ok(None);
		}
		let pend = std::mem::take(&mut self.sides[side].pending);
		self.original_updates.insert((side, k), pend.clone());
		for u in pend {
			self.sides[side].updates.push(Upd { kind: u, cs_index: k });
		}
		self.sides[side].cs_count = k;
		let acked = self.sides[side].raa_secrets.len() as u64;
		let exp = self.expected_commit(side, k, acked)?;
		self.expected.insert((side, k), exp.clone());
		Ok(Some(exp))
	}

	fn initial_msat(&self, side: usize) -> u64 {
		if side == 0 {
			self.value_sat * 1000 - self.push_msat
		} else {
			self.push_msat
		}
	}

	/// The commitment transaction of `1 - signer` (the broadcaster) as signed by the `signer`'s
	/// k-th commitment_signed, when the signer had acked `acked` of the broadcaster's
	/// commitment_signed messages.
	pub fn expected_commit(&self, signer: usize, k: u64, acked: u64) -> Result<ExpectedCommit, String> {
		let bro = 1 - signer;
		let incl = |side: usize, u: &Upd| -> bool {
			if side == signer {
				u.cs_index <= k
			} else {
				u.cs_index <= acked
			}
		};
		self.build(bro, &incl)
	}

	/// Balances once every update sent by either side is irrevocably committed.
	pub fn final_balances_msat(&self) -> Result<(u64, u64), String> {
		let e = self.build_raw(&|_, _| true)?;
		if !e.2.is_empty() {
			return Err("HTLCs still pending".into());
		}
		Ok((e.0[0], e.0[1]))
	}

	/// Returns (balances msat [a, b], feerate, pending htlcs as (offerer side, amount, cltv, hash)).
	#[allow(clippy::type_complexity)]
	fn build_raw(
		&self, incl: &dyn Fn(usize, &Upd) -> bool,
	) -> Result<([u64; 2], u32, Vec<(usize, u64, u32, [u8; 32])>), String> {
		let mut bal = [self.initial_msat(0) as i128, self.initial_msat(1) as i128];
		let mut feerate = self.initial_feerate;
		// htlcs keyed by (offerer side, id)
		let mut htlcs: BTreeMap<(usize, u64), (u64, u32, [u8; 32])> = BTreeMap::new();
		// adds first (both sides), then removals: a removal always follows its add in time
		for side in 0..2 {
			for u in self.sides[side].updates.iter() {
				if !incl(side, u) {
					continue;
				}
				if let UpdKind::Add { id, amount_msat, hash, cltv } = &u.kind {
					if htlcs.insert((side, *id), (*amount_msat, *cltv, *hash)).is_some() {
						return Err(format!("duplicate htlc id {} from side {}", id, side));
					}
					bal[side] -= *amount_msat as i128;
				}
			}
		}
		for side in 0..2 {
			for u in self.sides[side].updates.iter() {
				if !incl(side, u) {
					continue;
				}
				match &u.kind {
					UpdKind::Fulfill { id } => {
						// `side` removes an HTLC offered by the other side and is paid
						match htlcs.remove(&(1 - side, *id)) {
							Some((amt, _, _)) => bal[side] += amt as i128,
							None => {
								return Err(format!(
									"fulfill of htlc {} which is not pending in this commitment",
									id
								))
							},
						}
					},
					UpdKind::Fail { id } => match htlcs.remove(&(1 - side, *id)) {
						Some((amt, _, _)) => bal[1 - side] += amt as i128,
						None => {
							return Err(format!(
								"fail of htlc {} which is not pending in this commitment",
								id
							))
						},
					},
					UpdKind::Fee { rate } => {
						if side == 0 {
							feerate = *rate;
						}
					},
					UpdKind::Add { .. } => {},
				}
			}
		}
		if bal[0] < 0 || bal[1] < 0 {
			return Err(format!("negative balance {:?}", bal));
		}
		let pending = htlcs.into_iter().map(|((s, _), (a, c, h))| (s, a, c, h)).collect();
		Ok(([bal[0] as u64, bal[1] as u64], feerate, pending))
	}

	fn build(&self, bro: usize, incl: &dyn Fn(usize, &Upd) -> bool) -> Result<ExpectedCommit, String> {
		let (bal, feerate, pending) = self.build_raw(incl)?;
		let dust = self.sides[bro]
			.dust_limit_sat
			.ok_or_else(|| "dust limit of broadcaster unknown".to_string())?;
		let feerate = if self.zero_fee_commitments { 0 } else { feerate };
		// BOLT-3 trimming
		let (timeout_w, success_w) = if self.anchors { (666u64, 706u64) } else { (663u64, 703u64) };
		let zero_htlc_fee = self.anchors || self.zero_fee_commitments;
		let mut nondust = Vec::new();
		let mut trimmed = Vec::new();
		for (offerer, amt, cltv, hash) in pending.iter() {
			let offered_by_bro = *offerer == bro;
			let w = if offered_by_bro { timeout_w } else { success_w };
			let htlc_fee = if zero_htlc_fee { 0 } else { feerate as u64 * w / 1000 };
			let h = ExpHtlc {
				offered_by_broadcaster: offered_by_bro,
				amount_msat: *amt,
				cltv: *cltv,
				hash: *hash,
			};
			if amt / 1000 < dust + htlc_fee {
				trimmed.push(h);
			} else {
				nondust.push(h);
			}
		}
		let base_w: u64 = if self.anchors { 1124 } else { 724 };
		let weight = base_w + 172 * nondust.len() as u64;
		let fee_sat = if self.zero_fee_commitments { 0 } else { feerate as u64 * weight / 1000 };
		let anchors_total = if self.anchors { 660 } else { 0 };
		// funder (side 0) pays anchors then fee, never below zero
		let mut msat = [bal[0], bal[1]];
		msat[0] = msat[0].saturating_sub(anchors_total * 1000);
		let mut sat = [msat[0] / 1000, msat[1] / 1000];
		sat[0] = sat[0].saturating_sub(fee_sat);
		let mut to_bro = sat[bro];
		let mut to_cs = sat[1 - bro];
		if to_bro < dust {
			to_bro = 0;
		}
		if to_cs < dust {
			to_cs = 0;
		}
		let nondust_sum: u64 = nondust.iter().map(|h| h.amount_msat / 1000).sum();
		let has_htlc_outputs = nondust_sum != 0;
		let mut anchor_out = 0;
		if self.anchors {
			if to_bro > 0 || has_htlc_outputs {
				anchor_out += 330;
			}
			if to_cs > 0 || has_htlc_outputs {
				anchor_out += 330;
			}
		}
		let mut p2a = 0;
		if self.zero_fee_commitments {
			let rest = self.value_sat - nondust_sum - to_bro - to_cs;
			p2a = rest.min(240);
		}
		let mut nd = nondust.clone();
		nd.sort_by(|x, y| (x.amount_msat, x.cltv, x.hash, x.offered_by_broadcaster).cmp(&(y.amount_msat, y.cltv, y.hash, y.offered_by_broadcaster)));
		Ok(ExpectedCommit {
			feerate,
			nondust: nd,
			trimmed,
			to_broadcaster_sat: to_bro,
			to_countersignatory_sat: to_cs,
			anchors_total_sat: anchor_out + p2a,
			outputs_sum_sat: to_bro + to_cs + nondust_sum + anchor_out + p2a,
			broadcaster_msat: bal[bro],
			countersignatory_msat: bal[1 - bro],
		})
	}

	/// Compares a commitment seen at the signer seam with the model. Returns a description of
	/// the first difference.
	pub fn compare(&self, exp: &ExpectedCommit, seen: &CommitSummary) -> Result<(), String> {
		let mut seen_nd: Vec<ExpHtlc> = seen
			.nondust_htlcs
			.iter()
			.map(|h| ExpHtlc {
				offered_by_broadcaster: h.offered,
				amount_msat: h.amount_msat,
				cltv: h.cltv_expiry,
				hash: h.payment_hash,
			})
			.collect();
		seen_nd.sort_by(|x, y| (x.amount_msat, x.cltv, x.hash, x.offered_by_broadcaster).cmp(&(y.amount_msat, y.cltv, y.hash, y.offered_by_broadcaster)));
		if seen.feerate_per_kw != exp.feerate {
			return Err(format!("feerate {} but the wire implies {}", seen.feerate_per_kw, exp.feerate));
		}
		if seen_nd != exp.nondust {
			return Err(format!(
				"non-dust HTLC set differs: commitment has {:?}, the wire implies {:?} (trimmed per BOLT-3: {:?})",
				seen_nd, exp.nondust, exp.trimmed
			));
		}
		if seen.to_broadcaster_sat != exp.to_broadcaster_sat
			|| seen.to_countersignatory_sat != exp.to_countersignatory_sat
		{
			return Err(format!(
				"balances differ: commitment pays broadcaster {} / countersignatory {} sat, the wire implies {} / {} (msat {} / {})",
				seen.to_broadcaster_sat,
				seen.to_countersignatory_sat,
				exp.to_broadcaster_sat,
				exp.to_countersignatory_sat,
				exp.broadcaster_msat,
				exp.countersignatory_msat
			));
		}
		let out_sum: u64 = seen.tx.output.iter().map(|o| o.value.to_sat()).sum();
		if out_sum != exp.outputs_sum_sat {
			return Err(format!(
				"outputs add up to {} sat, expected {} (channel value {})",
				out_sum, exp.outputs_sum_sat, self.value_sat
			));
		}
		if out_sum > self.value_sat {
			return Err(format!("outputs {} exceed the channel value {}", out_sum, self.value_sat));
		}
		if let Some(f) = self.funding {
			if seen.funding_outpoint != f {
				return Err(format!("spends {} instead of the funding output {}", seen.funding_outpoint, f));
			}
		}
		Ok(())
	}
}
