//! Development driver.
//!   blocksyncsim_dev run <profile> <quick|thorough> <first-index> <count> [batch-seed]
//!   blocksyncsim_dev det <profile> <quick|thorough> <first-index> <count>
//!   blocksyncsim_dev one <profile> <quick|thorough> <run-seed>
//!   blocksyncsim_dev replay <file>
//! `run` prints violations (with the shrunk trace of the first one) and the aggregated counters.

use blocksyncsim::BlockSyncSim;
use simcore::runner::{install_panic_hook, run_isolated};
use simcore::{mix, RunOutcome, Sim, Tier};
use std::collections::{BTreeMap, BTreeSet};
use std::sync::atomic::{AtomicU64, Ordering};
use std::sync::{Arc, Mutex};
use std::time::{Duration, Instant};

fn run_many(profile: &str, tier: Tier, batch: u64, first: u64, count: u64) -> Vec<RunOutcome> {
	// returned in run-index order
	let next = Arc::new(AtomicU64::new(first));
	let outs: Arc<Mutex<Vec<(u64, RunOutcome)>>> = Arc::new(Mutex::new(Vec::new()));
	let nthreads = std::env::var("VERIF_JOBS")
		.ok()
		.and_then(|s| s.parse().ok())
		.unwrap_or_else(|| std::thread::available_parallelism().map(|n| n.get()).unwrap_or(4));
	let mut hs = Vec::new();
	for _ in 0..nthreads {
		let next = next.clone();
		let outs = outs.clone();
		let profile = profile.to_string();
		hs.push(std::thread::spawn(move || loop {
			let i = next.fetch_add(1, Ordering::SeqCst);
			if i >= first + count {
				break;
			}
			let seed = mix(batch, i);
			let mut o = run_isolated(|| BlockSyncSim.run(&profile, seed, tier));
			o.seed = seed;
			if o.violations.is_empty() && o.harness_errors.is_empty() {
				o.replay = None;
				o.sample = None;
			}
			outs.lock().unwrap().push((i, o));
		}));
	}
	for h in hs {
		let _ = h.join();
	}
	let mut v = std::mem::take(&mut *outs.lock().unwrap());
	v.sort_by_key(|(i, _)| *i);
	v.into_iter().map(|(_, o)| o).collect()
}

fn main() {
	install_panic_hook();
	let args: Vec<String> = std::env::args().collect();
	let mode = args.get(1).map(|s| s.as_str()).unwrap_or("run");
	let profile = args.get(2).cloned().unwrap_or_else(|| "sync".into());
	let tier = args.get(3).and_then(|s| Tier::parse(s)).unwrap_or(Tier::Quick);
	match mode {
		"one" => {
			let seed: u64 = args[4].parse().unwrap();
			let o = run_isolated(|| BlockSyncSim.run(&profile, seed, tier));
			println!("seed {} steps {} fp {:016x} violations {:?} harness {:?}", seed, o.steps, o.history_fp, o.violations, o.harness_errors);
			for (k, v) in o.counters.iter() {
				println!("  {} = {}", k, v);
			}
			if let Some(s) = o.sample {
				println!("{}", serde_json::to_string_pretty(&s).unwrap());
			}
		},
		"replay" => {
			// blocksyncsim_dev replay <file>   (file = a replay object {sim, profile, config, trace})
			let txt = std::fs::read_to_string(&args[2]).expect("read replay file");
			let v: serde_json::Value = serde_json::from_str(&txt).expect("parse replay file");
			let rep = if v.get("replay").map(|r| r.is_object()).unwrap_or(false) { v["replay"].clone() } else { v };
			let o = run_isolated(|| BlockSyncSim.replay(&rep));
			println!("steps {} fp {:016x} harness {:?}", o.steps, o.history_fp, o.harness_errors);
			for v in o.violations.iter() {
				println!("VIOLATION {} | {} | step {} | {}", v.property, v.oracle, v.step, v.message);
			}
			for (k, v) in o.counters.iter() {
				println!("  {} = {}", k, v);
			}
			std::process::exit(if o.violations.is_empty() { 0 } else { 1 });
		},
		"det" => {
			let first: u64 = args.get(4).and_then(|s| s.parse().ok()).unwrap_or(0);
			let count: u64 = args.get(5).and_then(|s| s.parse().ok()).unwrap_or(200);
			let a = run_many(&profile, tier, 1, first, count);
			let b = run_many(&profile, tier, 1, first, count);
			let mut diff = 0;
			for (x, y) in a.iter().zip(b.iter()) {
				if x.seed != y.seed || x.history_fp != y.history_fp || x.interleaving_fp != y.interleaving_fp || x.counters != y.counters {
					diff += 1;
					println!("DIFF seed {} {:016x} vs {:016x}", x.seed, x.history_fp, y.history_fp);
				}
			}
			println!("determinism: {} seeds x2, {} differences", a.len(), diff);
			std::process::exit(if diff == 0 { 0 } else { 2 });
		},
		_ => {
			let first: u64 = args.get(4).and_then(|s| s.parse().ok()).unwrap_or(0);
			let count: u64 = args.get(5).and_then(|s| s.parse().ok()).unwrap_or(1000);
			let batch: u64 = args.get(6).and_then(|s| s.parse().ok()).unwrap_or(1);
			let t0 = Instant::now();
			let outs = run_many(&profile, tier, batch, first, count);
			let dt = t0.elapsed().as_secs_f64();
			let mut counters: BTreeMap<String, u64> = BTreeMap::new();
			let mut inter = BTreeSet::new();
			let mut states = BTreeSet::new();
			let mut nontrivial = 0;
			let mut steps = 0;
			let mut nviol = 0;
			let mut first_viol: Option<(usize, RunOutcome)> = None;
			let mut by_oracle: BTreeMap<String, u64> = BTreeMap::new();
			for (i, o) in outs.iter().enumerate() {
				for (k, v) in o.counters.iter() {
					*counters.entry(k.clone()).or_insert(0) += v;
				}
				if o.nontrivial {
					nontrivial += 1;
					inter.insert(o.interleaving_fp);
				}
				for s in o.state_fps.iter() {
					states.insert(*s);
				}
				steps += o.steps;
				for e in o.harness_errors.iter() {
					println!("HARNESS-ERROR seed {}: {}", o.seed, e);
				}
				if !o.violations.is_empty() {
					nviol += 1;
					for v in o.violations.iter() {
						*by_oracle.entry(v.oracle.clone()).or_insert(0) += 1;
					}
					if nviol <= 5 {
						println!("VIOLATION run-index~{} seed {}: {:?}", first as usize + i, o.seed, o.violations[0]);
					}
					if first_viol.is_none() {
						first_viol = Some((i, o.clone()));
					}
				}
			}
			println!(
				"{} runs in {:.1}s = {:.0} runs/s; steps {}; nontrivial {}; distinct interleavings {}; states {}; runs with violations {}",
				outs.len(), dt, outs.len() as f64 / dt, steps, nontrivial, inter.len(), states.len(), nviol
			);
			for (k, v) in by_oracle.iter() {
				println!("  violated {} x{}", k, v);
			}
			if std::env::var("VERIF_COUNTERS").is_ok() {
				for (k, v) in counters.iter() {
					println!("  {} = {}", k, v);
				}
			}
			if let Some((i, o)) = first_viol {
				println!("first failing run is run index {} (i.e. caught after {} runs)", first as usize + i, i + 1);
				if let Some(rep) = o.replay.as_ref() {
					let v = &o.violations[0];
					let r = run_isolated(|| BlockSyncSim.replay(rep));
					let same = r.violations.iter().any(|x| x.oracle == v.oracle);
					println!("replay reproduces same oracle: {} (history_fp {:016x})", same, r.history_fp);
					let orig = rep["trace"].as_array().map(|a| a.len()).unwrap_or(0);
					let (min, spent) = simcore::shrink::shrink(&BlockSyncSim, rep, &v.property, &v.oracle, Duration::from_secs(60));
					let ml = min["trace"].as_array().map(|a| a.len()).unwrap_or(0);
					println!("shrunk {} -> {} actions in {} replays", orig, ml, spent);
					let r2 = run_isolated(|| BlockSyncSim.replay(&min));
					println!("minimised: {:?}", r2.violations.first());
					println!("{}", serde_json::to_string(&min).unwrap());
				}
			}
		},
	}
}
