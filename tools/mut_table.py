#!/usr/bin/env python3
"""Appendix C of DESIGN.md from /verif/seeded/results.tsv and the meta.json files."""
import json, os, collections
V = os.path.dirname(os.path.dirname(os.path.abspath(__file__)))
rows = [l.rstrip("\n").split("\t") for l in open(os.path.join(V, "seeded/results.tsv")) if "\t" in l]
by = collections.OrderedDict()
for p, m, c, t, rc, orc in rows:
    by.setdefault((p, m), []).append((c, t, rc, orc))
out = []
out.append("| property / change | what it breaks (sub-agent's summary) | checks run → verdict |")
out.append("|---|---|---|")
caught = 0
for (p, m), trials in by.items():
    meta = json.load(open(os.path.join(V, "seeded", p, m, "meta.json")))
    name = meta.get("name", m)
    summ = (meta.get("summary", "") or "").replace("|", "/").replace("\n", " ")
    if len(summ) > 230:
        summ = summ[:227] + "..."
    vs = []
    hit = False
    for c, t, rc, orc in trials:
        if rc == "1" and orc:
            vs.append(f"**{c} {t}: caught** ({orc})")
            hit = True
        elif rc == "0":
            vs.append(f"{c} {t}: not caught")
        else:
            vs.append(f"{c} {t}: {rc}")
    caught += hit
    out.append(f"| {p}/{m} `{name}` | {summ} | {'; '.join(vs)} |")
    meta["caught_by"] = [f"{c}/{t}: {orc}" for c, t, rc, orc in trials if rc == "1" and orc]
    json.dump(meta, open(os.path.join(V, "seeded", p, m, "meta.json"), "w"), indent=1)
print("\n".join(out))
print(f"\n{caught} of {len(by)} seeded changes are caught by at least one quick-tier check.")
