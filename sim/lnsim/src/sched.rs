//! Swarm configuration per profile and the seeded scheduler that picks the next action.

use crate::world::*;
use simcore::{Rng, Tier};
use std::collections::BTreeMap;

fn w(map: &mut BTreeMap<String, u32>, k: &str, v: u32) {
	map.insert(k.to_string(), v);
}

/// Draws the per-run configuration (topology, channel type, node knobs, action weights).
pub fn gen_config(profile: &str, rng: &mut Rng, tier: Tier) -> Config {
	// `deadlinecrash` = `deadlines` plus crashes and restarts of any node
	let with_crashes = profile == "deadlinecrash";
	// `asynccrash` = `crash` with most nodes persisting asynchronously or through a deferred
	// ChainMonitor (in-flight writes at every crash)
	let more_async = profile == "asynccrash";
	let profile = if with_crashes { "deadlines" } else if more_async { "crash" } else { profile };
	let mut r = rng.fork("config");
	let chan_type = *r.pick(&[ChanType::Legacy, ChanType::Anchors, ChanType::ZeroFee]);
	let n_nodes = match profile {
		// one run in 25 is a line of 21 nodes: payments over the longest route that fits (20 hops)
		"onionline" => {
			if r.chance(1, 25) {
				21
			} else {
				r.range(3, 7) as usize
			}
		},
		"offchain" => {
			if r.chance(7, 10) {
				2
			} else {
				3
			}
		},
		_ => 3,
	};
	let mut nodes = Vec::new();
	for _ in 0..n_nodes {
		let mut nc = NodeCfg::default();
		nc.htlc_minimum_msat = *r.pick(&[1, 1, 1000, 100_000]);
		nc.max_accepted_htlcs = *r.pick(&[3, 8, 50, 50]);
		nc.reserve_ppm = *r.pick(&[10_000, 10_000, 50_000, 2_000]);
		nc.inflight_pct = *r.pick(&[100, 100, 40, 10]);
		nc.max_dust_exposure_msat = *r.pick(&[None, None, Some(5_000_000), Some(400_000)]);
		nc.fee_base_msat = *r.pick(&[1000, 0, 2500]);
		nc.fee_prop_millionths = *r.pick(&[0, 100, 10_000]);
		nc.cltv_delta = *r.pick(&[72, 48, 144]);
		if n_nodes > 10 {
			// 19 forwarding hops must stay within the 1008 blocks a route may lock funds for
			nc.cltv_delta = 48;
		}
		match profile {
			"asyncpersist" => {
				nc.async_default = r.chance(1, 2);
				nc.deferred = r.chance(1, 3);
			},
			"crash" | "forward" | "payments" | "receive" | "onchain" | "roundtrip" | "chainstyle" | "tamper" | "deadlines" => {
				nc.async_default = r.chance(1, 4);
				nc.deferred = r.chance(1, 5);
				if more_async {
					nc.async_default = r.chance(2, 3);
					nc.deferred = r.chance(1, 3);
				}
			},
			"justice" => {
				nc.async_default = r.chance(1, 8);
			},
			_ => {},
		}
		nodes.push(nc);
	}
	let onchain_profile = profile != "offchain";
	let mut chans = Vec::new();
	for a in 0..n_nodes - 1 {
		let per_link = match profile {
			"offchain" => r.range(1, 2),
			_ => r.range(1, 2),
		};
		for _ in 0..per_link {
			let value_sat = if onchain_profile {
				*r.pick(&[500_000u64, 1_000_000, 3_000_000])
			} else {
				*r.pick(&[100_000u64, 300_000, 1_000_000, 5_000_000])
			};
			let push_msat = match if onchain_profile { 1 + r.below(3) } else { r.below(4) } {
				0 => 0,
				1 => value_sat * 1000 / 2,
				2 => value_sat * 1000 / 10,
				_ => value_sat * 1000 / 3,
			};
			// alternate the opener so that both funder roles occur on a forwarding node
			let (x, y) = if r.coin() { (a, a + 1) } else { (a + 1, a) };
			chans.push(ChanSpec { a: x, b: y, value_sat, push_msat });
		}
	}
	// a third link closes the triangle in a third of the runs: multi-part payments can then use
	// two different first-hop peers, and forwards have an alternative route
	if n_nodes == 3
		&& matches!(profile, "forward" | "payments" | "receive" | "crash" | "asyncpersist" | "roundtrip")
		&& r.chance(1, 3)
	{
		let value_sat = *r.pick(&[500_000u64, 1_000_000, 3_000_000]);
		let (x, y) = if r.coin() { (0, 2) } else { (2, 0) };
		chans.push(ChanSpec { a: x, b: y, value_sat, push_msat: value_sat * 1000 / 2 });
	}
	let mut weights = BTreeMap::new();
	// defaults; profiles override
	w(&mut weights, "Pump", 30);
	w(&mut weights, "Deliver", 60);
	w(&mut weights, "Drain", 20);
	w(&mut weights, "Forward", 15);
	w(&mut weights, "Tick", 2);
	w(&mut weights, "Send", 12);
	w(&mut weights, "Claim", 12);
	w(&mut weights, "FailBack", 4);
	w(&mut weights, "Disconnect", 2);
	w(&mut weights, "Reconnect", 10);
	w(&mut weights, "SetFee", 2);
	w(&mut weights, "CloseCoop", 0);
	w(&mut weights, "ForceClose", 0);
	w(&mut weights, "CompleteMon", 0);
	w(&mut weights, "AsyncOn", 0);
	w(&mut weights, "PersistMgr", 0);
	w(&mut weights, "Crash", 0);
	w(&mut weights, "ArmCrash", 0);
	w(&mut weights, "Restart", 0);
	w(&mut weights, "Relay", 0);
	w(&mut weights, "Mine", 0);
	w(&mut weights, "Sync", 0);
	w(&mut weights, "Reorg", 0);
	w(&mut weights, "Resend", 0);
	// not an action: one payment event in N is refused by the application's handler (replayed later)
	w(&mut weights, "ReplayEvent", 0);
	if matches!(profile, "forward" | "payments" | "receive" | "crash" | "asyncpersist" | "roundtrip") {
		w(&mut weights, "ReplayEvent", *r.pick(&[0, 0, 6, 20]));
	}
	if matches!(profile, "forward" | "payments" | "offchain" | "crash") {
		w(&mut weights, "Resend", *r.pick(&[0, 1, 2]));
	}
	// the forwarding node changes its policy in a quarter of the `forward` runs (drawn from a forked
	// stream so that the other runs are what they were before this action existed)
	if profile == "forward" {
		let mut pr = r.fork("policy");
		w(&mut weights, "SetPolicy", *pr.pick(&[0, 0, 0, 3]));
	}
	match profile {
		"offchain" => {
			w(&mut weights, "CloseCoop", if r.chance(1, 3) { 1 } else { 0 });
			w(&mut weights, "Disconnect", *r.pick(&[0, 2, 4]));
			w(&mut weights, "SetFee", *r.pick(&[0, 2, 5]));
		},
		"asyncpersist" => {
			w(&mut weights, "CompleteMon", *r.pick(&[10, 25, 50]));
			w(&mut weights, "AsyncOn", 2);
			w(&mut weights, "PersistMgr", 6);
		},
		"forward" | "payments" | "receive" | "crash" | "onchain" | "roundtrip" | "chainstyle" | "tamper" | "deadlines" => {
			w(&mut weights, "CompleteMon", *r.pick(&[10, 25, 50]));
			w(&mut weights, "AsyncOn", 1);
			w(&mut weights, "PersistMgr", *r.pick(&[3, 8, 20]));
			w(&mut weights, "Crash", *r.pick(&[0, 1, 2]));
			w(&mut weights, "ArmCrash", *r.pick(&[0, 1, 2]));
			w(&mut weights, "Restart", 8);
			w(&mut weights, "Mine", *r.pick(&[0, 1, 2]));
			w(&mut weights, "Relay", 2);
			w(&mut weights, "ForceClose", if r.chance(1, 3) { 1 } else { 0 });
			w(&mut weights, "SetFee", 0);
		},
		_ => {},
	}
	if profile == "deadlines" {
		// the chain runs past HTLC expiries while a peer is gone or unreachable; nobody crashes
		// and comes back with stale state (that is C10's subject)
		w(&mut weights, "Mine", *r.pick(&[6, 10, 16]));
		w(&mut weights, "Relay", 4);
		w(&mut weights, "Crash", 0);
		w(&mut weights, "ArmCrash", 0);
		w(&mut weights, "ForceClose", 0);
		w(&mut weights, "Partition", *r.pick(&[1, 2]));
		w(&mut weights, "Heal", *r.pick(&[0, 1, 2]));
		w(&mut weights, "Gone", *r.pick(&[0, 1, 2]));
		w(&mut weights, "Claim", *r.pick(&[2, 6, 12]));
		w(&mut weights, "FailBack", *r.pick(&[0, 2]));
		if with_crashes {
			w(&mut weights, "Crash", *r.pick(&[1, 2]));
			// crashes between actions only: a paced block is many library calls in one action, and
			// the freeze-at-a-persist-call crash model is defined per single call
			w(&mut weights, "ArmCrash", 0);
			w(&mut weights, "Restart", 8);
			w(&mut weights, "PersistMgr", *r.pick(&[1, 3, 8]));
		}
	}
	if profile == "onionline" {
		// a quiet line: no chain activity, no crashes; failures come from the chosen hop or from
		// packets altered in flight
		for k in ["Crash", "ArmCrash", "Restart", "Mine", "Relay", "ForceClose", "CloseCoop", "SetFee", "AsyncOn", "PersistMgr"] {
			w(&mut weights, k, 0);
		}
		w(&mut weights, "CompleteMon", 30);
		w(&mut weights, "Send", 14);
		w(&mut weights, "Claim", 10);
		w(&mut weights, "FailBack", *r.pick(&[2, 6]));
		w(&mut weights, "Disconnect", *r.pick(&[0, 0, 1]));
		w(&mut weights, "Corrupt", *r.pick(&[0, 3, 8]));
	}
	if profile == "tamper" {
		w(&mut weights, "Tamper", *r.pick(&[2, 4, 8]));
		w(&mut weights, "Crash", *r.pick(&[0, 0, 1]));
		w(&mut weights, "ArmCrash", 0);
	}
	if profile == "onchain" {
		w(&mut weights, "ForceClose", *r.pick(&[1, 2, 4]));
		w(&mut weights, "Mine", *r.pick(&[1, 2, 3]));
		w(&mut weights, "Relay", 4);
		w(&mut weights, "Crash", *r.pick(&[0, 0, 1]));
		w(&mut weights, "ArmCrash", *r.pick(&[0, 0, 1]));
		w(&mut weights, "SetFee", *r.pick(&[0, 2, 4]));
		w(&mut weights, "ClosePrev", *r.pick(&[0, 6, 20]));
	}
	if profile == "justice" {
		// a long off-chain history, nothing on chain before the cheat
		w(&mut weights, "CompleteMon", 30);
		w(&mut weights, "PersistMgr", 4);
		w(&mut weights, "Send", 20);
		w(&mut weights, "SetFee", *r.pick(&[0, 2, 5]));
		w(&mut weights, "Disconnect", *r.pick(&[0, 1, 2]));
		w(&mut weights, "Crash", *r.pick(&[0, 0, 1]));
		w(&mut weights, "Restart", 8);
		w(&mut weights, "CheatEarly", *r.pick(&[0, 0, 1]));
	}
	if profile == "chainstyle" {
		w(&mut weights, "Mine", *r.pick(&[3, 6]));
		w(&mut weights, "Reorg", *r.pick(&[1, 2, 4]));
		w(&mut weights, "ForceClose", 2);
		w(&mut weights, "Relay", 6);
		w(&mut weights, "Crash", 1);
		w(&mut weights, "ArmCrash", 0);
	}
	// T5 (fee-estimator sanity), extended: with a fixed-msat dust-exposure limit LDK documents
	// that a feerate rise can legitimately force-close; fee changes are only explored with the
	// default feerate-multiplier limit.
	if nodes.iter().any(|n| n.max_dust_exposure_msat.is_some()) {
		w(&mut weights, "SetFee", 0);
	}
	// swarm: randomly mute some optional action kinds entirely
	for k in ["FailBack", "Tick", "SetFee"] {
		if r.chance(1, 5) {
			w(&mut weights, k, 0);
		}
	}
	let (mut max_steps, mut max_payments) = match tier {
		Tier::Quick => (r.range(120, 400), r.range(2, 10) as usize),
		Tier::Thorough => (r.range(150, 700), r.range(2, 16) as usize),
	};
	if profile == "justice" {
		max_payments = match tier {
			Tier::Quick => r.range(3, 16) as usize,
			Tier::Thorough => r.range(3, 60) as usize,
		};
		max_steps = max_steps.max(60 * max_payments as u64 / 2);
	}
	Config {
		profile: profile.to_string(),
		chan_type,
		nodes,
		chans,
		max_steps,
		max_payments,
		weights,
		node_seed: r.next_u64(),
	}
}

fn weight(cfg: &Config, k: &str) -> u32 {
	*cfg.weights.get(k).unwrap_or(&0)
}

/// Amount for the first hop of a new payment, biased to the boundaries the channel reports.
fn pick_amount(wd: &World, rng: &mut Rng, from: usize, first_chan: usize) -> u64 {
	let cid = wd.chans[first_chan].channel_id;
	let det = wd.mgr(from).and_then(|m| m.list_channels().into_iter().find(|d| d.channel_id == cid));
	let (min, max) = match det {
		Some(d) => (d.next_outbound_htlc_minimum_msat, d.next_outbound_htlc_limit_msat),
		None => (1, 1_000_000),
	};
	// BOLT-3 trimming thresholds: dust_limit (354 sat) + HTLC-timeout (663 wu) / HTLC-success
	// (703 wu) fee at the feerates the profile uses; zero-fee-HTLC channels trim at 354 sat flat
	let mut dust_edges = vec![354_000u64, 353_999, 546_000, 1_000_000, 999_999, 330_000];
	for f in [253u64, 254, 300, 500, 1000, 2000, 3000, 5000] {
		for w in [663u64, 703] {
			let t = (354 + f * w / 1000) * 1000;
			dust_edges.push(t);
			dust_edges.push(t - 1);
		}
	}
	let v = match rng.below(16) {
		0 => max,
		1 => max + 1,
		2 => max.saturating_sub(1).max(1),
		3 => min,
		4 => min.saturating_sub(1).max(1),
		5 => min + 1,
		6 => 1,
		7 | 8 | 9 => *rng.pick(&dust_edges) + rng.below(3) * 1000,
		10 => rng.range(1, 2_000_000),
		_ => {
			let hi = max.max(min + 1).min(60_000_000);
			rng.range(min.max(1), hi.max(min.max(1)))
		},
	};
	v.max(1)
}

/// Channels usable for a hop from `x`: returns (chan idx, peer).
fn chans_of(wd: &World, x: usize) -> Vec<(usize, usize)> {
	wd.chans
		.iter()
		.filter(|c| !c.close_requested)
		.filter_map(|c| {
			if c.a == x {
				Some((c.idx, c.b))
			} else if c.b == x {
				Some((c.idx, c.a))
			} else {
				None
			}
		})
		.collect()
}

/// Profile `onionline`: a payment along the line over 1..n-1 hops, optionally with exactly one
/// forwarding hop under-paid (fee or CLTV delta) so that this hop refuses.
fn gen_send_line(wd: &World, rng: &mut Rng) -> Option<Action> {
	let n = wd.nodes.len();
	let from = rng.below(n as u64) as usize;
	wd.mgr(from)?;
	let dir_up = if from == 0 { true } else if from == n - 1 { false } else { rng.coin() };
	let max_len = if dir_up { n - 1 - from } else { from };
	// prefer long paths
	let len = if rng.chance(1, 2) { max_len } else { 1 + rng.below(max_len as u64) as usize };
	let mut path = Vec::new();
	let mut cur = from;
	for _ in 0..len {
		let next = if dir_up { cur + 1 } else { cur - 1 };
		let c = chans_of(wd, cur).into_iter().find(|(_, p)| *p == next)?;
		path.push(c.0);
		cur = next;
	}
	wd.mgr(cur)?;
	let amt = rng.range(1_000_000, 20_000_000);
	let (mut fee_delta, mut cltv_adj) = (0i64, 0i32);
	if len >= 2 && rng.chance(1, 4) {
		let j = rng.below(len as u64 - 1) as i64;
		if rng.coin() {
			fee_delta = -(j + 1);
		} else {
			cltv_adj = -(j as i32 + 1);
		}
	}
	Some(Action::Send { from, to: cur, paths: vec![path], amts: vec![amt], fee_delta_msat: fee_delta, cltv_delta_adj: cltv_adj, flaw: 0 })
}

fn gen_send(wd: &World, rng: &mut Rng) -> Option<Action> {
	if wd.cfg.profile == "onionline" {
		return gen_send_line(wd, rng);
	}
	let n = wd.nodes.len();
	let from = rng.below(n as u64) as usize;
	wd.mgr(from)?;
	let first = chans_of(wd, from);
	if first.is_empty() {
		return None;
	}
	// route length 1 or 2 (line topologies)
	let (c1, p1) = *rng.pick(&first);
	let mut path = vec![c1];
	let mut to = p1;
	if rng.chance(1, 2) {
		let next: Vec<(usize, usize)> =
			chans_of(wd, p1).into_iter().filter(|(_, p)| *p != from).collect();
		if !next.is_empty() {
			let (c2, p2) = *rng.pick(&next);
			path.push(c2);
			to = p2;
		}
	}
	wd.mgr(to)?;
	let mut amt = if wd.strict_offchain {
		pick_amount(wd, rng, from, c1)
	} else if rng.chance(1, 5) {
		// tiny: may be dust on a commitment (exempt from the wealth oracle)
		rng.range(1, 5_000_000)
	} else {
		// big: unmistakable if lost, far above any on-chain fee
		rng.range(20_000_000, 60_000_000)
	};
	if path.len() == 2 {
		// pick_amount is about the first hop; leave room for the forwarding fee
		let fee = wd.nodes[p1].cfg.fee_base_msat as u64 + 1 + amt * wd.nodes[p1].cfg.fee_prop_millionths as u64 / 1_000_000;
		amt = amt.saturating_sub(fee).max(1);
	}
	let mut paths = vec![path.clone()];
	let mut amts = vec![amt];
	// MPP over parallel channels of the same link
	if rng.chance(1, 6) {
		let alt: Vec<usize> = first.iter().filter(|(c, p)| *p == p1 && *c != c1).map(|(c, _)| *c).collect();
		if let Some(c_alt) = alt.first() {
			let mut p2 = path.clone();
			p2[0] = *c_alt;
			let a2 = amt / 2;
			if a2 > 0 && amt - a2 > 0 {
				paths.push(p2);
				amts = vec![amt - a2, a2];
			}
		}
	}
	// MPP over two different first-hop peers (triangle topologies): direct part + part via the
	// third node
	if paths.len() == 1 && path.len() == 1 && rng.chance(1, 4) {
		let via: Vec<(usize, usize, usize)> = first
			.iter()
			.filter(|(_, p)| *p != to)
			.filter_map(|(c, p)| chans_of(wd, *p).into_iter().find(|(_, q)| *q == to).map(|(c2, _)| (*c, *p, c2)))
			.collect();
		if let Some((ca, _mid, cb)) = via.first() {
			let a2 = amt / 2;
			if a2 > 0 && amt - a2 > 0 {
				paths.push(vec![*ca, *cb]);
				amts = vec![amt - a2, a2];
			}
		}
	}
	let (fee_delta, cltv_adj) = if path.len() == 2 && rng.chance(1, 12) {
		if rng.coin() {
			(-1, 0)
		} else {
			(0, -1)
		}
	} else {
		(0, 0)
	};
	// C04: in profile `receive` a third of the payments carry a flaw the recipient must refuse
	let flaw = if wd.cfg.profile == "receive" && rng.chance(1, 3) { 1 + rng.below(5) as u8 } else { 0 };
	Some(Action::Send { from, to, paths, amts, fee_delta_msat: fee_delta, cltv_delta_adj: cltv_adj, flaw })
}

/// Draws the next action. Returns None when nothing is enabled.
pub fn next_action(wd: &World, rng: &mut Rng) -> Option<Action> {
	let cfg = &wd.cfg;
	let n = wd.nodes.len();
	let mut kinds: Vec<(&str, u32)> = Vec::new();
	let live: Vec<usize> = (0..n).filter(|i| wd.nodes[*i].live.is_some()).collect();
	let dead: Vec<usize> = (0..n).filter(|i| wd.nodes[*i].live.is_none()).collect();
	let nonempty: Vec<(usize, usize)> =
		wd.queues.iter().filter(|(_, q)| !q.is_empty()).map(|(k, _)| *k).collect();
	let down: Vec<(usize, usize)> = wd
		.conn
		.keys()
		.filter(|(a, b)| a < b)
		.filter(|(a, b)| !wd.is_conn(*a, *b) && !wd.is_conn(*b, *a))
		.filter(|(a, b)| wd.nodes[*a].live.is_some() && wd.nodes[*b].live.is_some())
		.filter(|(a, b)| !wd.partitioned.contains(a) && !wd.partitioned.contains(b))
		.cloned()
		.collect();
	let up: Vec<(usize, usize)> = wd
		.conn
		.keys()
		.filter(|(a, b)| a < b)
		.filter(|(a, b)| wd.is_conn(*a, *b) || wd.is_conn(*b, *a))
		.cloned()
		.collect();
	let claimers: Vec<usize> = live.iter().cloned().filter(|i| !wd.nodes[*i].claimables.is_empty()).collect();
	let mut completions: Vec<(usize, usize)> = Vec::new();
	for i in live.iter() {
		let d = wd.nodes[*i].disk.lock().unwrap();
		for (k, c) in d.chans.iter() {
			if !c.completions.is_empty() {
				if let Some(ci) = wd.chans.iter().position(|x| x.channel_id.0 == *k) {
					completions.push((*i, ci));
				}
			}
		}
	}
	if !live.is_empty() {
		kinds.push(("Pump", weight(cfg, "Pump")));
		kinds.push(("Drain", weight(cfg, "Drain")));
		kinds.push(("Forward", weight(cfg, "Forward")));
		kinds.push(("Tick", weight(cfg, "Tick")));
		kinds.push(("SetFee", weight(cfg, "SetFee")));
		kinds.push(("SetPolicy", weight(cfg, "SetPolicy")));
		kinds.push(("PersistMgr", weight(cfg, "PersistMgr")));
		kinds.push(("AsyncOn", weight(cfg, "AsyncOn")));
		kinds.push(("Crash", weight(cfg, "Crash")));
		kinds.push(("ArmCrash", weight(cfg, "ArmCrash")));
		kinds.push(("CloseCoop", weight(cfg, "CloseCoop")));
		kinds.push(("ForceClose", weight(cfg, "ForceClose")));
		if wd.pays.len() < cfg.max_payments {
			kinds.push(("Send", weight(cfg, "Send")));
		}
	}
	if !nonempty.is_empty() {
		kinds.push(("Deliver", weight(cfg, "Deliver")));
	}
	let resendable: Vec<usize> = wd
		.pays
		.iter()
		.filter(|p| p.accepted && wd.nodes[p.from].live.is_some())
		.map(|p| p.idx)
		.collect();
	if !resendable.is_empty() {
		kinds.push(("Resend", weight(cfg, "Resend")));
	}
	let tamperable: Vec<(usize, usize, bool)> = wd
		.queues
		.iter()
		.filter_map(|((f, t), q)| match q.front() {
			Some(WireMsg::Revoke(_)) => Some((*f, *t, true)),
			Some(WireMsg::Commit(_)) => Some((*f, *t, false)),
			_ => None,
		})
		.filter(|(f, t, _)| wd.is_conn(*t, *f) && wd.nodes[*t].live.is_some())
		.collect();
	if !live.is_empty() && cfg.profile == "deadlines" {
		if wd.partitioned.len() + wd.nodes.iter().filter(|x| x.gone).count() < 1 {
			kinds.push(("Partition", weight(cfg, "Partition")));
			kinds.push(("Gone", weight(cfg, "Gone")));
		}
		if !wd.partitioned.is_empty() {
			kinds.push(("Heal", weight(cfg, "Heal")));
		}
	}
	let corruptible: Vec<(usize, usize)> = wd
		.queues
		.iter()
		.filter(|((f, t), q)| matches!(q.front(), Some(WireMsg::Add(_))) && wd.is_conn(*t, *f) && wd.nodes[*t].live.is_some())
		.map(|(k, _)| *k)
		.collect();
	if !corruptible.is_empty() && wd.onion.corruptions < 3 {
		kinds.push(("Corrupt", weight(cfg, "Corrupt")));
	}
	// C07: a channel may also be closed by the previous commitment of either side while that is
	// still unrevoked
	let mut prev_closable: Vec<(usize, usize)> = Vec::new();
	if cfg.profile == "onchain" && weight(cfg, "ClosePrev") > 0 {
		for c in wd.chans.iter() {
			if c.close_requested || !wd.chain.utxos.contains_key(&c.funding) {
				continue;
			}
			for x in [c.a, c.b] {
				if wd.previous_unrevoked(x, c.idx).is_some() {
					prev_closable.push((x, c.idx));
				}
			}
		}
		if !prev_closable.is_empty() && !wd.nodes.iter().any(|x| x.gone) {
			kinds.push(("ClosePrev", weight(cfg, "ClosePrev")));
		}
	}
	// C06: in a third of the `justice` runs the cheat happens in the middle of the traffic instead
	// of after quiescence
	if cfg.profile == "justice" && wd.cheat.is_none() && wd.trace.len() > 60 && weight(cfg, "CheatEarly") > 0 {
		kinds.push(("CheatEarly", weight(cfg, "CheatEarly")));
	}
	if !tamperable.is_empty() && wd.tampers_done < 2 {
		kinds.push(("Tamper", weight(cfg, "Tamper")));
	}
	// T1/T3: the random phase may move the chain only by a bounded number of blocks, so that no
	// HTLC comes near its expiry while a node is down or messages are delayed
	let block_budget = if cfg.profile == "deadlines" { 420 } else { 18 };
	if wd.out.sim_blocks < block_budget {
		kinds.push(("Mine", weight(cfg, "Mine")));
		// T4: reorganisations stay below the anti-reorg depth where loss-freedom is asserted
		kinds.push(("Reorg", weight(cfg, "Reorg")));
	}
	if live.iter().any(|i| wd.nodes[*i].broadcaster.len() > 0) {
		kinds.push(("Relay", weight(cfg, "Relay")));
	}
	if !down.is_empty() {
		kinds.push(("Reconnect", weight(cfg, "Reconnect")));
	}
	if !up.is_empty() {
		kinds.push(("Disconnect", weight(cfg, "Disconnect")));
	}
	if !claimers.is_empty() {
		kinds.push(("Claim", weight(cfg, "Claim")));
		kinds.push(("FailBack", weight(cfg, "FailBack")));
	}
	if !completions.is_empty() {
		kinds.push(("CompleteMon", weight(cfg, "CompleteMon")));
	}
	if !dead.is_empty() {
		kinds.push(("Restart", weight(cfg, "Restart")));
	}
	let ws: Vec<u32> = kinds.iter().map(|(_, w)| *w).collect();
	if ws.iter().all(|x| *x == 0) {
		return None;
	}
	let mut kind = kinds[rng.weighted(&ws)].0;
	// a fee-estimate change only reaches the wire on a timer tick: follow it up often, so that
	// update_fee meets whatever else is in flight (holding cell, pending revocations)
	let mut forced_tick = None;
	if let Some(Action::SetFee { n, .. }) = wd.trace.last() {
		if wd.nodes[*n].live.is_some() && weight(cfg, "Tick") + weight(cfg, "SetFee") > 0 && rng.chance(1, 2) {
			kind = "Tick";
			forced_tick = Some(*n);
		}
	}
	// recipe (C03): a multi-part payment whose parts leave through two different peers, sent while
	// one first-hop channel persists asynchronously (its part answers MonitorUpdateInProgress) and
	// the other first-hop peer is disconnected (its part is refused on the spot). Chained on a
	// randomly drawn AsyncOn: AsyncOn -> Disconnect -> Send.
	let tl = wd.trace.len();
	if let Some(Action::AsyncOn { n: an, chan }) = wd.trace.last() {
		let (an, chan) = (*an, *chan);
		let p = if wd.chans[chan].a == an { wd.chans[chan].b } else { wd.chans[chan].a };
		let other: Vec<usize> = chans_of(wd, an)
			.into_iter()
			.map(|(_, q)| q)
			.filter(|q| *q != p && wd.nodes[*q].live.is_some() && wd.is_conn(an, *q) && wd.is_conn(*q, an))
			.filter(|q| chans_of(wd, p).iter().any(|(_, x)| x == q))
			.collect();
		if let Some(q) = other.first() {
			if wd.nodes[an].live.is_some() && wd.pays.len() < cfg.max_payments && rng.chance(1, 2) {
				return Some(Action::Disconnect { a: an.min(*q), b: an.max(*q), side: 0 });
			}
		}
	}
	if tl >= 2 {
		if let (Action::AsyncOn { n: an, chan }, Action::Disconnect { a, b, .. }) = (&wd.trace[tl - 2], &wd.trace[tl - 1]) {
			let (an, chan) = (*an, *chan);
			if (*a == an || *b == an) && wd.nodes[an].live.is_some() && wd.pays.len() < cfg.max_payments {
				let q = if *a == an { *b } else { *a };
				let p = if wd.chans[chan].a == an { wd.chans[chan].b } else { wd.chans[chan].a };
				let direct_q = chans_of(wd, an).into_iter().find(|(_, x)| *x == q).map(|(c, _)| c);
				let pq = chans_of(wd, p).into_iter().find(|(_, x)| *x == q).map(|(c, _)| c);
				if let (Some(cq), Some(cpq), true) = (direct_q, pq, p != q && wd.nodes[p].live.is_some() && wd.nodes[q].live.is_some()) {
					let amt = rng.range(20_000_000, 60_000_000);
					let a2 = amt / 2;
					// to the disconnected peer: [async channel, P->Q] + [direct]; or to the other
					// peer: [async channel] + [direct to Q, Q->P]
					let (to, paths) = if rng.coin() {
						(q, vec![vec![chan, cpq], vec![cq]])
					} else {
						(p, vec![vec![chan], vec![cq, cpq]])
					};
					return Some(Action::Send { from: an, to, paths, amts: vec![amt - a2, a2], fee_delta_msat: 0, cltv_delta_adj: 0, flaw: 0 });
				}
			}
		}
	}
	let pick_live = |rng: &mut Rng| *rng.pick(&live);
	Some(match kind {
		"Pump" => Action::Pump { n: pick_live(rng) },
		"Drain" => Action::Drain { n: pick_live(rng) },
		"Forward" => Action::Forward { n: pick_live(rng) },
		"Tick" => Action::Tick { n: forced_tick.unwrap_or_else(|| pick_live(rng)) },
		"SetFee" => {
			let rate = *rng.pick(&[253u32, 300, 500, 1000, 2000, 3000, 5000, 254]);
			Action::SetFee { n: pick_live(rng), rate }
		},
		"SetPolicy" => {
			// mostly the node that forwards; fee and CLTV delta often move in opposite directions
			let n = pick_live(rng);
			let c = &wd.nodes[n].cfg;
			let (fee_base, cltv_delta) = match rng.below(4) {
				0 => (c.fee_base_msat + 1500, if c.cltv_delta > 72 { c.cltv_delta - 24 } else { 48 }),
				1 => (c.fee_base_msat.saturating_sub(700), c.cltv_delta + 24),
				2 => (c.fee_base_msat + 1000, c.cltv_delta + 24),
				_ => (*rng.pick(&[0u32, 1000, 2500, 4000]), *rng.pick(&[48u16, 72, 96, 144])),
			};
			let fee_prop = if rng.chance(1, 3) { *rng.pick(&[0u32, 100, 10_000]) } else { c.fee_prop_millionths };
			Action::SetPolicy { n, fee_base, fee_prop, cltv_delta, mix: if rng.chance(2, 3) { 1 } else { 0 } }
		},
		"PersistMgr" => Action::PersistMgr { n: pick_live(rng) },
		"AsyncOn" => {
			let i = pick_live(rng);
			let cs = chans_of(wd, i);
			if cs.is_empty() {
				return None;
			}
			Action::AsyncOn { n: i, chan: rng.pick(&cs).0 }
		},
		"Crash" => {
			let i = pick_live(rng);
			let pick: Vec<u8> = (0..4).map(|_| rng.below(4) as u8).collect();
			Action::Crash { n: i, pick }
		},
		"ArmCrash" => Action::ArmCrash { n: pick_live(rng), at: rng.range(1, 4), after: rng.coin() },
		"CloseCoop" | "ForceClose" => {
			let i = pick_live(rng);
			let cs = chans_of(wd, i);
			if cs.is_empty() {
				return None;
			}
			let c = rng.pick(&cs).0;
			if kind == "CloseCoop" {
				Action::CloseCoop { n: i, chan: c }
			} else {
				// T6: no user force close while a monitor write of that channel is in flight
				if completions.iter().any(|(cn, cc)| *cn == i && *cc == c) {
					return None;
				}
				Action::ForceClose { n: i, chan: c }
			}
		},
		"Send" => return gen_send(wd, rng),
		"Resend" => Action::Resend { pay: *rng.pick(&resendable) },
		"Deliver" => {
			let (f, t) = *rng.pick(&nonempty);
			Action::Deliver { from: f, to: t }
		},
		"Partition" => Action::Partition { n: pick_live(rng) },
		"Gone" => Action::Gone { n: pick_live(rng) },
		"Heal" => Action::Heal { n: *wd.partitioned.iter().next().unwrap() },
		"CheatEarly" => return gen_cheat(wd, rng),
		"ClosePrev" => {
			let (n, chan) = *rng.pick(&prev_closable);
			Action::ClosePrev { n, chan }
		},
		"Corrupt" => {
			let (f, t) = *rng.pick(&corruptible);
			Action::Corrupt { from: f, to: t, kind: rng.below(4) as u8, bit: rng.next_u64() as u32 }
		},
		"Tamper" => {
			let (f, t, is_raa) = *rng.pick(&tamperable);
			Action::Tamper { from: f, to: t, kind: if is_raa { rng.below(2) as u8 } else { 2 } }
		},
		"Reconnect" => {
			let (a, b) = *rng.pick(&down);
			Action::Reconnect { a, b }
		},
		"Disconnect" => {
			let (a, b) = *rng.pick(&up);
			Action::Disconnect { a, b, side: *rng.pick(&[0u8, 0, 1, 2]) }
		},
		"Claim" | "FailBack" => {
			let i = *rng.pick(&claimers);
			let ps: Vec<usize> = wd.nodes[i].claimables.keys().cloned().collect();
			let p = *rng.pick(&ps);
			if kind == "Claim" {
				Action::Claim { n: i, pay: p }
			} else {
				Action::FailBack { n: i, pay: p }
			}
		},
		"CompleteMon" => {
			let (i, c) = *rng.pick(&completions);
			Action::CompleteMon { n: i, chan: c, which: rng.below(3) as u8 }
		},
		"Restart" => Action::Restart { n: *rng.pick(&dead), style: 0 },
		"Mine" => Action::Mine { count: if cfg.profile == "deadlines" { *rng.pick(&[1u32, 1, 2, 3, 6, 12]) } else { rng.range(1, 3) as u32 } },
		"Reorg" => {
			let depth = *rng.pick(&[1u32, 1, 2, 3, 5]);
			Action::Reorg { depth, readmit: rng.chance(3, 4), new_len: depth + rng.below(2) as u32 + 1 }
		},
		"Relay" => {
			let c: Vec<usize> = live.iter().cloned().filter(|i| wd.nodes[*i].broadcaster.len() > 0).collect();
			Action::Relay { n: *rng.pick(&c) }
		},
		_ => return None,
	})
}

/// C06: which revoked commitment the cheater confirms and how.
pub fn gen_cheat(wd: &World, rng: &mut Rng) -> Option<Action> {
	let mut cands: Vec<(usize, usize, usize)> = Vec::new();
	for c in wd.chans.iter() {
		if !wd.chain.utxos.contains_key(&c.funding) {
			continue;
		}
		for x in [c.a, c.b] {
			let n = wd.revoked_entries(x, c.idx).len();
			if n > 0 {
				cands.push((x, c.idx, n));
			}
		}
	}
	if cands.is_empty() {
		return None;
	}
	let (n, chan, len) = *rng.pick(&cands);
	// any age, with some weight on the newest and the oldest revoked state
	let age = match rng.below(5) {
		0 => 0,
		1 => len as u64 - 1,
		_ => rng.below(len as u64),
	} as u32;
	let same_block = if rng.chance(1, 2) { rng.next_u64() as u32 } else { 0 };
	let later = if rng.chance(2, 3) { rng.next_u64() as u32 } else { 0 };
	Some(Action::Cheat { n, chan, age, same_block, later, v_late: rng.below(4) as u8 })
}

/// Confirmation delays, fee-estimator moves and reloads during the on-chain resolution phase.
pub fn gen_liq_plan(wd: &World, rng: &mut Rng) -> Action {
	let n = wd.nodes.len();
	let mut holds = Vec::new();
	for _ in 0..rng.below(3) {
		holds.push((rng.below(40) as u32, rng.range(1, 6) as u32));
	}
	let mut restarts = Vec::new();
	for _ in 0..rng.below(3) {
		restarts.push((rng.below(60) as u32, rng.below(n as u64) as usize));
	}
	let mut fees = Vec::new();
	for _ in 0..rng.below(4) {
		fees.push((rng.below(50) as u32, rng.below(n as u64) as usize, *rng.pick(&[253u32, 1000, 5000, 12_000, 25_000])));
	}
	// correlated pattern: confirmations stall for a while and the fee estimate collapses (or
	// jumps) in the middle of the stall, so that pending claims are re-issued under the new estimate
	if rng.chance(1, 2) {
		let from = rng.below(30) as u32;
		let len = rng.range(3, 8) as u32;
		holds.push((from, len));
		let rate = *rng.pick(&[253u32, 253, 600, 1000, 25_000]);
		for node in 0..n {
			fees.push((from + 1 + rng.below(2) as u32, node, rate));
		}
	}
	// shallow reorganisations while claims are in flight
	let mut reorgs = Vec::new();
	for _ in 0..rng.below(3) {
		let depth = *rng.pick(&[1u32, 1, 1, 2, 3, 5]);
		// in a quarter of them the removed transactions are gone from the mempool as well
		let lost = if wd.cfg.profile == "onchain" && rng.chance(1, 4) { 100 } else { 0 };
		// (only in the first rounds: later the harness's own wallet has sweeps in those blocks,
		// and nobody models its re-broadcasts)
		let round = if lost > 0 { 1 + rng.below(4) as u32 } else { rng.below(30) as u32 };
		reorgs.push((round, depth + lost));
	}
	Action::LiqPlan { holds, restarts, fees, reorgs }
}
