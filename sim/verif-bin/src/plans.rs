//! Which simulations, profiles and run counts make up each registered check.

use simcore::runner::{Job, Plan};
use simcore::Tier;

fn job(sim: &str, profile: &str, runs: u64) -> Job {
	Job { sim: sim.to_string(), profile: profile.to_string(), runs, exe: None }
}

/// Worker executable of simulations built in a separate cargo workspace.
pub fn external_exe(sim: &str, verif_dir: &str) -> Option<String> {
	match sim {
		"storesim" => Some(format!("{}/sim-store/target/release/store_worker", verif_dir)),
		_ => None,
	}
}

fn xjob(sim: &str, profile: &str, runs: u64, verif_dir: &str) -> Job {
	Job { sim: sim.to_string(), profile: profile.to_string(), runs, exe: external_exe(sim, verif_dir) }
}

pub fn plan_for(prop: &str, tier: Tier, seed: u64, verif_dir: &str) -> Option<Plan> {
	let q = tier == Tier::Quick;
	let scale: u64 = std::env::var("VERIF_SCALE").ok().and_then(|s| s.parse().ok()).unwrap_or(100);
	let n = |quick: u64, thorough: u64| -> u64 { ((if q { quick } else { thorough }) * scale / 100).max(1) };
	let t_assumptions = vec![
		"T1-T6 of DESIGN.md §3.3 / §0.1 (block pacing, confirmation bound, downtime bound, reorg bound, fee-estimator sanity, no user force-close with a monitor write in flight) are enforced by the scheduler".to_string(),
		"library built with feature _test_utils (MPP_TIMEOUT_TICKS=1, gossip too-old check off, extra visibility) and --cfg ldk_verif hooks H1-H3".to_string(),
		"reference models (wire ledger, chain/mempool) are part of the trusted base".to_string(),
	];
	let plan = match prop {
		"C01" => Plan {
			property: "C01".into(),
			tier,
			seed,
			jobs: vec![job("lnsim", "offchain", n(12000, 80000))],
			level: "exploration".into(),
			rule: "one evaluation = one seeded simulated run of profile `offchain` (2-3 real nodes, 1-4 channels, random interleaving of individually delivered messages, sends at boundary amounts, claims, fails, fee updates, disconnects/reconnects, optional cooperative close) followed by a settle phase; non-trivial = at least one payment reached a terminal event or one fault fired; distinct = distinct hash of the executed (action kind, actor) sequence".into(),
			assumptions: t_assumptions.clone(),
			probes: vec![
				"dust_htlc_in_commitment".into(),
				"commitment_signed_retransmitted".into(),
				"send_at_limit_boundary".into(),
				"closing_tx_signed".into(),
				"zero_fee_trimmed_sum_over_240".into(),
				"timeout_disconnect".into(),
			],
			exhaustive: false,
		},
		"C02" => Plan {
			property: "C02".into(),
			tier,
			seed,
			jobs: vec![job("lnsim", "forward", n(1500, 15000)), job("lnsim", "offchain", n(2500, 30000))],
			level: "exploration".into(),
			rule: "profile `forward`: 3 real nodes in a line or triangle (1-4 channels, all three channel types), payments routed through a middle node (plus direct ones), each message delivered individually in a seeded order, claims/fails by the recipient, fee updates, disconnects, monitor writes completing late (async Persist) or via deferred ChainMonitor flush, crashes of any node between or inside API calls with in-flight monitor writes independently lost or surviving, restart from the latest ChannelManager snapshot (taken at seeded PersistMgr actions) and durable monitors, user force-closes; then settle (quiesce) and liquidate (close everything on a UTXO/mempool/script-verifying chain model, mine until all monitors drain, sweep). Oracles during the run: C02-3 forwarded HTLC matches an inbound HTLC and keeps at least the advertised fee and CLTV delta, C02-5 PaymentForwarded truthful, C02-6 dust exposure (for a node configured with MaxDustHTLCExposure::FixedLimitMsat, the HTLCs it offered that have no output on a commitment - the peer's or its own, as the BOLT-3 reference ledger trims them - never add up to more than the limit; checked at every commitment_signed, also in job `offchain`: 2-3 nodes, amounts at the trimming thresholds, no chain activity); at the end: C02-W wealth (each node owns on chain at least what PaymentClaimed/PaymentForwarded/PaymentSent told it, less on-chain fees and its dust allowance), no library panic. One evaluation = one seeded run (config, schedule and faults all drawn from the run seed; replay executes the recorded action trace). non-trivial = the run executed at least one payment/HTLC to a terminal state or fired at least one fault; distinct = distinct FNV hash of the executed (action kind, actor) sequence.".into(),
			assumptions: t_assumptions.clone(),
			probes: vec![],
			exhaustive: false,
		},
		"C03" => Plan {
			property: "C03".into(),
			tier,
			seed,
			jobs: vec![job("lnsim", "forward", n(1500, 15000))],
			level: "exploration".into(),
			rule: "profile `forward` (see C02 for the world and fault mix: 3 real nodes, individually scheduled messages, async/deferred persistence, crashes with stale ChannelManager snapshots, on-chain resolution). Oracles: C03-1 PaymentSent only with the recipient's preimage, C03-2 recipient paid => sender sees PaymentSent, C03-3 every payment has a terminal event after settle+liquidation, C03-4 amount/fee of PaymentSent equal what left the sender, C03-5 terminal events neither repeated within an incarnation nor contradictory, C03-6 payments absent after a stale restart are really gone; sender side of the wealth oracle. One evaluation = one seeded run (config, schedule and faults all drawn from the run seed; replay executes the recorded action trace). non-trivial = the run executed at least one payment/HTLC to a terminal state or fired at least one fault; distinct = distinct FNV hash of the executed (action kind, actor) sequence.".into(),
			assumptions: t_assumptions.clone(),
			probes: vec![],
			exhaustive: false,
		},
		"C04" => Plan {
			property: "C04".into(),
			tier,
			seed,
			jobs: vec![
				job("lnsim", "receive", n(600, 10000)),
				job("lnsim", "offchain", n(1500, 15000)),
				job("lnsim", "deadlines", n(600, 10000)),
			],
			level: "exploration".into(),
			rule: "profiles `receive` (3 real nodes, world and fault mix of C02's `forward` profile: direct, forwarded and two-part payments, claims and explicit fails by the recipient in seeded order relative to message delivery, crashes and restarts of the recipient with stale ChannelManager snapshots, on-chain resolution; a third of the payments carry a sender-side flaw the recipient must refuse: a flipped bit in the payment secret, the secret of another payment, less than the registered amount, or an onion total larger than the parts actually sent, which must time out), `offchain` (2-3 nodes, no chain activity, boundary amounts) and `deadlines` (see C08: final CLTV values around the acceptance boundary, parts of one payment with different expiries, claims at every height relative to the advertised deadline). Oracles: C04-1 PaymentClaimable only at the registered recipient, for the complete amount, with a claim window, never for a flawed payment; C04-3 the preimage leaves the node only after claim_funds, PaymentClaimed follows claim_funds made above the deadline and reports the full amount, never without claim_funds; recipient side of the wealth oracle (what PaymentClaimed reported is owned on chain after liquidation). One evaluation = one seeded run (config, schedule and faults all drawn from the run seed; replay executes the recorded action trace). non-trivial = the run executed at least one payment/HTLC to a terminal state or fired at least one fault; distinct = distinct FNV hash of the executed (action kind, actor) sequence.".into(),
			assumptions: t_assumptions.clone(),
			probes: vec![],
			exhaustive: false,
		},
		"C05" => Plan {
			property: "C05".into(),
			tier,
			seed,
			jobs: vec![
				job("lnsim", "offchain", n(2500, 40000)),
				job("lnsim", "forward", n(400, 5000)),
				job("lnsim", "crash", n(400, 5000)),
				job("lnsim", "tamper", n(400, 6000)),
				job("lnsim", "deadlinecrash", n(400, 5000)),
			],
			level: "exploration".into(),
			rule: "profiles `offchain`, `forward`, `crash`: every call that reaches the signer seam (sign_counterparty_commitment, validate_holder_commitment, release_commitment_secret, sign_holder_commitment, HTLC signing) and every transaction handed to the broadcaster is recorded and fed to a per-channel revocation automaton written from BOLT 2. Oracles: C05-1 a secret is released only after a newer holder commitment was validated, C05-2 a revoked holder commitment (or HTLC tx on it) is never signed, re-validated or broadcast, nor revoked after broadcast, C05-3 at most one unrevoked counterparty commitment is outstanding when signing and numbers advance by one, C05-4 revoke_and_ack carries exactly the released secret and the right next point; LDK's own TestChannelSigner policy assertions are treated as oracle failures. Crashes restore signer state from the durable monitors/manager only. Profile `tamper` adds a Byzantine peer: a revoke_and_ack whose secret was altered in flight (bit flip, or an unrelated valid scalar) or a commitment_signed whose signature was altered is delivered; C05-5 the receiver must fail the channel instead of advancing (it never stores a secret that does not match the announced commitment point), after which the run continues on chain with all other oracles armed. Profile `deadlinecrash` (see C08) lets the chain pass HTLC expiries so that ChannelMonitors broadcast holder commitments on their own, with crashes in between. One evaluation = one seeded run (config, schedule and faults all drawn from the run seed; replay executes the recorded action trace). non-trivial = the run executed at least one payment/HTLC to a terminal state or fired at least one fault; distinct = distinct FNV hash of the executed (action kind, actor) sequence.".into(),
			assumptions: t_assumptions.clone(),
			probes: vec![],
			exhaustive: false,
		},
		"C06" => Plan {
			property: "C06".into(),
			tier,
			seed,
			jobs: vec![job("lnsim", "justice", n(1500, 15000)), job("lnsim", "justicesweep", n(24, 300))],
			level: "exploration".into(),
			rule: "profile `justice`: 3 real nodes build a seeded off-chain history (3-16 payments in quick, up to 60 in thorough: direct and forwarded, dust and non-dust HTLCs in both directions, claims, fails, fee updates, disconnects, async monitor persistence, occasional crash/restart); after every action each node's fully signed holder commitment and (non-anchor channels) its signed HTLC transactions are archived through the test-only ChannelMonitor::unsafe_get_latest_holder_commitment_txn. In two thirds of the runs after quiescence, in one third in the middle of the traffic, one node turns cheater: a seeded revoked commitment from its archive (any age) is handed to the miner, a seeded subset of its HTLC-success/timeout transactions in the same block or later, and the victim learns 0-3 blocks late. The chain then runs until every monitor has drained, under a seeded plan of confirmation delays (blocks that leave the mempool alone, forcing fee bumps), fee-estimator moves (also collapsing in the middle of a stall), shallow reorganisations (depth 1-5) and reloads of any node's monitors from disk. Oracles: C06/C07-1 every transaction the victim broadcasts is consensus-valid and final (libbitcoinconsensus against the UTXO model); C06-2 walking the spend tree of the revoked commitment, every non-anchor output (and every output of the cheater's confirmed second-stage transactions) ends in the victim's scripts, spent before the cheater's to_self_delay expired; C06/C07-5 re-issued claims never lower their fee; C06/C07-4 claimable balances drain and SpendableOutputs are swept with the node's keys; wealth lower bound for the victim. Job `justicesweep` enumerates the revoked-state index: one seeded off-chain history is built and settled, then replayed once per (channel, cheating side, revoked commitment of that side the other can punish) - every such commitment of the history in the thorough tier (cap 400), a seeded subset of 16 per history in the quick tier - each with a seeded subset of the HTLC transactions and the same liquidation plan, all oracles armed (counter `revoked_states_explored`; probe `every_revoked_state_of_the_history_confirmed`). One evaluation = one seeded run (config, schedule and faults all drawn from the run seed; replay executes the recorded action trace). non-trivial = a revoked commitment was confirmed; distinct = distinct FNV hash of the executed (action kind, actor) sequence.".into(),
			assumptions: t_assumptions.clone(),
			probes: vec![
				"revoked_state_at_least_4_old".into(),
				"cheater_second_stage_confirmed".into(),
				"claim_fee_bumped".into(),
				"revoked_commitment_lost_the_race".into(),
			],
			exhaustive: false,
		},
		"C07" => Plan {
			property: "C07".into(),
			tier,
			seed,
			jobs: vec![job("lnsim", "onchain", n(1000, 12000)), job("lnsim", "forward", n(400, 3000)), job("blobsim", "sweeper", n(20000, 300000))],
			level: "exploration".into(),
			rule: "profiles `onchain` and `forward` (3 real nodes; channels are force-closed by either side at seeded points or by the stale-manager rule after crashes, with HTLCs pending in both directions; a channel may also be closed by a node's previous, still unrevoked commitment (archived as in C06; that node then stops and its peer must cope); every remaining channel is force-closed in the liquidation phase and the chain is mined until every monitor has drained, under a seeded plan of confirmation delays, fee-estimator moves, shallow reorganisations and monitor reloads; anchor CPFP through BumpTransaction events served by a simulated wallet, transactions relayed to the mempool in seeded order and delay). The chain model verifies every broadcast transaction with libbitcoinconsensus against its UTXO set (scripts, amounts, locktime, BIP68) and applies mempool replacement rules. Oracles: C07-1 every broadcast tx is consensus-valid, final at the height it is offered for, and creates no money; C07-4 SpendableOutputs refer to confirmed outputs with the right value, are spendable by the node's keys (sweep verified by script) and claimable balances drain to nothing; wealth oracle; LDK's debug assertions in onchaintx.rs/package.rs count as oracle failures. Job blobsim/`sweeper` covers util/sweep.rs, the component the SpendableOutputs are handed to: an OutputSweeperSync over a fault-injecting KVStoreSync, a simulated chain (reorganisations of depth 1-7), a recording broadcaster and a real KeysManager tracks 1-10 outputs under seeded Track / ConnectBlock / Reorg / FeeChange / KvFailNext / Crash / CrashAtOp (k-th store operation, surviving or not) / Regenerate actions and a fault-free settle phase; C07-S1 an output whose track call returned Ok survives every restart until its spend is buried, C07-S2 outputs leave the list only after the documented burial depth and every output's status follows the chain it was told about (pending again after a reorganisation), C07-S3 sweeps spend only tracked outputs once, are final and pay only to the change destination, C07-S4 delayed outputs are not swept early and everything is swept once faults stop. One evaluation = one seeded run (config, schedule and faults all drawn from the run seed; replay executes the recorded action trace). non-trivial = the run executed at least one payment/HTLC to a terminal state or fired at least one fault; distinct = distinct FNV hash of the executed (action kind, actor) sequence.".into(),
			assumptions: t_assumptions.clone(),
			probes: vec![],
			exhaustive: false,
		},
		"C08" => Plan {
			property: "C08".into(),
			tier,
			seed,
			jobs: vec![job("lnsim", "deadlines", n(2000, 20000)), job("lnsim", "deadlinecrash", n(600, 6000))],
			level: "exploration".into(),
			rule: "profile `deadlines`: 3 real nodes, direct and forwarded payments (dust and non-dust, MPP), claims and fail-backs by the recipient at seeded moments relative to the advertised claim_deadline, while the chain advances up to ~400 blocks past HTLC expiries and one peer is gone for good (its node never returns) or cut off from the network and possibly healed later. Blocks are processed one at a time under the environment the property assumes: every live node sees each block when it is mined, responsive connected peers exchange all pending messages, monitor writes complete and broadcast transactions confirm within the block (T1-T3 at one block). Oracles: C08-3 after each fully processed block no channel a node still treats as open carries an outbound HTLC (known to a commitment) with expiry + LATENCY_GRACE_PERIOD_BLOCKS(3) <= height, nor an inbound HTLC the application claimed more than a block ago with expiry <= height + CLTV_CLAIM_BUFFER(36); C08-4 a ChannelClosed with reason HTLCsTimedOut is only reported when some HTLC of that channel had reached one of these deadlines (no early close); C08-5 a channel whose two peers were responsive throughout is never closed for an HTLC timeout (the upstream HTLC of a forward to a silent peer is failed back in time); C08-2 claim_funds called strictly below claim_deadline produces PaymentClaimed; C04-1 PaymentClaimable always leaves a claim window; wealth oracle after liquidation for every node that was not gone (a silent peer costs at most the HTLC's own channel, never the upstream HTLC). Job `deadlinecrash` adds crashes and restarts (then C08-5 only judges channels whose peers never restarted). One evaluation = one seeded run (config, schedule and faults all drawn from the run seed; replay executes the recorded action trace). non-trivial = at least one payment reached a terminal event or one fault fired; distinct = distinct FNV hash of the executed (action kind, actor) sequence.".into(),
			assumptions: t_assumptions.clone(),
			probes: vec![
				"channel_closed_for_htlc_timeout".into(),
				"outbound_htlc_one_block_before_forced_close".into(),
				"claimed_one_block_below_deadline".into(),
			],
			exhaustive: false,
		},
		"C09" => Plan {
			property: "C09".into(),
			tier,
			seed,
			jobs: vec![job("lnsim", "asyncpersist", n(3000, 30000))],
			level: "exploration".into(),
			rule: "profile `asyncpersist`: every node's Persist implementation returns InProgress for a seeded subset of calls (switching from Completed to InProgress at any time, never back without restart), completions are delivered in seeded order and delay, including while disconnected; some nodes use the deferred ChainMonitor with seeded flush points; crashes lose or keep in-flight writes independently. The Watch tap records each update_id and the simulated disk what is durable. Oracles: C09-1 update ids per channel are consecutive; C09-2 no commitment_signed, revoke_and_ack, update_fulfill_htlc, funding_signed/channel_ready leaves the node (observed at the message seam) before the monitor update it depends on, and all earlier ones, are durable. One evaluation = one seeded run (config, schedule and faults all drawn from the run seed; replay executes the recorded action trace). non-trivial = the run executed at least one payment/HTLC to a terminal state or fired at least one fault; distinct = distinct FNV hash of the executed (action kind, actor) sequence.".into(),
			assumptions: t_assumptions.clone(),
			probes: vec![],
			exhaustive: false,
		},
		"C10" => Plan {
			property: "C10".into(),
			tier,
			seed,
			jobs: vec![
				job("lnsim", "crashsweep", n(16, 150)),
				job("lnsim", "crash", n(400, 6000)),
				job("lnsim", "asynccrash", n(400, 6000)),
			],
			level: "fault_enumeration".into(),
			rule: "two jobs. `crashsweep`: a seeded base scenario (profile crash) is recorded, then re-executed once per crash point k = every Persist call of every node (freeze-and-discard inside the k-th call, with the write either lost or surviving) and once per action boundary, each followed by restart, settle and liquidation - an enumeration of the crash points of that scenario. `crash`: seeded runs with several crashes (also during recovery), ChannelManager snapshots of seeded staleness; `asynccrash`: the same with two thirds of the nodes persisting asynchronously and a third behind a deferred ChainMonitor, so that most crashes find monitor writes in flight. Oracles: C10-1 monitors and manager deserialize, restart does not panic; C10-2 a channel whose monitor is ahead is closed not resumed; all C02/C03/C04/C05/C07 oracles stay armed after the restart (revoked state never signed or broadcast, payments reach truthful terminal events, wealth). One evaluation = one seeded run (config, schedule and faults all drawn from the run seed; replay executes the recorded action trace). non-trivial = the run executed at least one payment/HTLC to a terminal state or fired at least one fault; distinct = distinct FNV hash of the executed (action kind, actor) sequence.".into(),
			assumptions: t_assumptions.clone(),
			probes: vec![],
			exhaustive: false,
		},
		"C11" => Plan {
			property: "C11".into(),
			tier,
			seed,
			jobs: vec![job("lnsim", "chainstyle", n(1200, 12500))],
			level: "exploration".into(),
			rule: "profile `chainstyle`: the live nodes receive the chain through a seeded delivery style (Listen full blocks, Listen filtered blocks, Confirm with transactions_confirmed before or after best_block_updated, per-block or batched, with transaction_unconfirmed or blocks_disconnected on reorgs) while shadow ChannelMonitors - clones made through serialisation - are fed the same chain in every other style and, at seeded points, reloaded. Reorgs of depth 1-5 (< ANTI_REORG_DELAY) remove and re-mine or replace transactions. Oracles: C11-1 best block, claimable balances and the set of watched (reorg-sensitive) txids agree between styles after each block; C11-2 no SpendableOutputs before 6 confirmations; panics while delivering in another style. One evaluation = one seeded run (config, schedule and faults all drawn from the run seed; replay executes the recorded action trace). non-trivial = the run executed at least one payment/HTLC to a terminal state or fired at least one fault; distinct = distinct FNV hash of the executed (action kind, actor) sequence.".into(),
			assumptions: t_assumptions.clone(),
			probes: vec![],
			exhaustive: false,
		},
		"C12" => Plan {
			property: "C12".into(),
			tier,
			seed,
			jobs: vec![job("lnsim", "roundtrip", n(250, 4000)), job("gossipsim", "mixed", n(15000, 200000)), job("blobsim", "scorer", n(6000, 100000)), job("blobsim", "sweeper", n(8000, 150000))],
			level: "exploration".into(),
			rule: "profile `roundtrip`: during a `forward`-style run (payments, crashes, async persistence, on-chain closes), at seeded points every live ChannelMonitor, every ChannelMonitorUpdate seen at the Watch tap and the ChannelManager are written and read back: C12-a monitor == read(write(monitor)) (LDK's own field-wise equality, hook H3) also after a second trip and after applying the next update to both copies, updates re-serialise identically; C12-b the reloaded manager lists the same channels and payments, keeps every pending event of the original in order together with the completion action attached to it (hooks H6/H7; start-up may add events), and - for channels on which no update is unsigned or in flight - shows the same balances, limits and outbound HTLCs; C12-c the stored bytes are then read through a fault-injecting reader (truncation at every seeded offset, io::Error, bit flips): decoding must return Err or a value, never panic, and never accept a truncated monitor. Job gossipsim/`mixed` (see C17) adds the network graph: at seeded points of gossip histories (P2P, RGS snapshots, pruning) the graph is written and read back, C12-d read(write(g)) == g under NetworkGraph's own PartialEq, same public view, and the copy serialises again to the same length. Job blobsim/`scorer`: a ProbabilisticScorer (or CombinedScorer) over a seeded 8-25 node NetworkGraph receives seeded path/probe successes and failures, simulated time (seconds to 400 days, decay), graph removals/additions and external-score merges; at seeded points it is written and read back: C12-e1 read succeeds and consumes exactly the bytes, C12-e2 liquidity ranges, historical buckets, success probabilities and channel_penalty_msat (3 fee-parameter sets, 4 amounts) are bit-equal on the recently used channels in both directions, C12-e3 the copy re-encodes to the same entries, C12-e4 original and copies then receive every later action in lock-step and are compared again, C12-e5 truncated encodings are refused, bit flips never panic, an appended unknown odd TLV is skipped and an even one rejected. Job blobsim/`sweeper` (see C07): C12-f the OutputSweeper restored from the KV store after a crash equals the state at the last write that took effect; truncated stored bytes are refused. One evaluation = one seeded run (config, schedule and faults all drawn from the run seed; replay executes the recorded action trace). non-trivial = the run executed at least one payment/HTLC to a terminal state or fired at least one fault; distinct = distinct FNV hash of the executed (action kind, actor) sequence.".into(),
			assumptions: t_assumptions.clone(),
			probes: vec![],
			exhaustive: false,
		},
		"C13" => Plan {
			property: "C13".into(),
			tier,
			seed,
			jobs: vec![job("codecsim", "stream", n(90000, 1500000)), job("codecsim", "ioskip", n(3000, 50000))],
			level: "exploration".into(),
			rule: "codecsim profiles `stream` and `ioskip`: for each of the peer message types a seeded value is built, encoded and decoded through LDK's FixedLengthReader on top of a fault-injecting reader owned by the simulator (chunking, EOF or io::Error at a seeded offset, bit/byte mutation, trailing bytes, rewritten length prefixes, TLV stream edits: unknown odd/even, duplicate, out of order, non-minimal BigSize, huge lengths). Oracles: round trip is identical; truncation gives ShortRead/Io and never a value from fewer bytes; io errors surface as DecodeError::Io; unknown even TLVs are refused and odd ones skipped; allocation stays bounded by the frame size (global allocator guard); no panic. One evaluation = one seeded run (config, schedule and faults all drawn from the run seed; replay executes the recorded action trace). non-trivial = the run executed at least one payment/HTLC to a terminal state or fired at least one fault; distinct = distinct FNV hash of the executed (action kind, actor) sequence.".into(),
			assumptions: t_assumptions.clone(),
			probes: vec![],
			exhaustive: false,
		},
		"C14" => Plan {
			property: "C14".into(),
			tier,
			seed,
			jobs: vec![job("lnsim", "onionline", n(5000, 50000))],
			level: "exploration".into(),
			rule: "profile `onionline`: a line of 3-7 real nodes (one channel per link, all channel types, per-node fees and CLTV deltas drawn per run); payments over 1..n-1 hops in either direction, individually scheduled message delivery, asynchronous monitor persistence, occasional disconnects; per payment optionally exactly one forwarding hop is under-paid by 1 msat of fee or 1 block of CLTV delta (that hop must refuse), the recipient claims or fails back, and up to three update_add_htlc messages per run are altered in flight on a seeded hop (a bit of the 1300-byte hop data, a bit of the HMAC, the ephemeral key replaced, or a bit of the payment hash). Oracles: C14-1 every update_add_htlc a hop emits carries exactly the amount (C02-3 arithmetic) and the cltv_expiry the sender's route prescribes for that hop, and the last hop shows the payment claimable for the full amount; C14-2 an altered packet is refused by the node that receives it: no later hop ever emits an update_add_htlc for it and the recipient is never shown PaymentClaimable; C14-3 the sender's PaymentPathFailed names the channel of the failing hop: the altered link, the outgoing channel of the under-paid forwarder (retryable), or a permanent failure when the recipient refused. Not covered here (no schedule or fault in them): blinded tails, keysend/custom TLV sizes, maximum-length 20+-hop packets, hold-time attribution data. One evaluation = one seeded run (config, schedule and faults all drawn from the run seed; replay executes the recorded action trace). non-trivial = at least one payment reached a terminal event or one fault fired; distinct = distinct FNV hash of the executed (action kind, actor) sequence.".into(),
			assumptions: t_assumptions.clone(),
			probes: vec![
				"onion_peeled_by_fifth_hop_or_later".into(),
				"failure_after_corruption_attributed".into(),
				"failure_at_chosen_forwarding_hop".into(),
				"failure_by_recipient_attributed".into(),
			],
			exhaustive: false,
		},
		"C15" => Plan {
			property: "C15".into(),
			tier,
			seed,
			jobs: vec![
				job("transportsim", "mix", n(75000, 1200000)),
				job("transportsim", "rotation", n(3000, 30000)),
				job("transportsim", "adversary", n(24000, 400000)),
			],
			level: "exploration".into(),
			rule: "transportsim profiles `mix`, `rotation`, `adversary`: two or three real PeerManagers (real PeerChannelEncryptor, Noise_XK handshake, key rotation every 1000 messages) joined by simulator-owned byte pipes that fragment, delay, back-pressure (send_data returning short counts, read pausing), cut, and - in fault runs - flip, insert, delete, duplicate or replay bytes; a raw adversary peer speaks the handshake itself and sends malformed frames. Oracle: the sequence of messages each handler receives is a prefix of what the other side enqueued, exactly once and in order, and any tampering ends in disconnection before a forged/duplicated/reordered message is delivered; rotation runs push >2000 messages per direction. One evaluation = one seeded run (config, schedule and faults all drawn from the run seed; replay executes the recorded action trace). non-trivial = the run executed at least one payment/HTLC to a terminal state or fired at least one fault; distinct = distinct FNV hash of the executed (action kind, actor) sequence.".into(),
			assumptions: t_assumptions.clone(),
			probes: vec![],
			exhaustive: false,
		},
		"C20" => Plan {
			property: "C20".into(),
			tier,
			seed,
			jobs: vec![job("blocksyncsim", "sync", n(80000, 1200000)), job("blocksyncsim", "tiplies", n(8000, 120000))],
			level: "exploration".into(),
			rule: "blocksyncsim profiles `sync` and `tiplies`: real SpvClient / ChainPoller / init::synchronize_listeners over a BlockSource answering from a simulator-owned block tree (forks, reorgs deeper than the header cache, equal-work ties), whose futures complete after seeded numbers of polls and which fails (transient/persistent) or lies (wrong block, bad PoW, bad merkle root, non-connecting header, wrong height/chainwork) at a seeded request index; for small scenarios every request index x fault kind is enumerated. Oracle: each listener's connect/disconnect history is always a valid walk of the real tree (stack model), never includes an invalid block, ends at the best tip once faults stop, and an error leaves the listener at a consistent point. One evaluation = one seeded run (config, schedule and faults all drawn from the run seed; replay executes the recorded action trace). non-trivial = the run executed at least one payment/HTLC to a terminal state or fired at least one fault; distinct = distinct FNV hash of the executed (action kind, actor) sequence.".into(),
			assumptions: t_assumptions.clone(),
			probes: vec![],
			exhaustive: false,
		},
		"C17" => Plan {
			property: "C17".into(),
			tier,
			seed,
			jobs: vec![job("gossipsim", "mixed", n(60000, 1000000))],
			level: "exploration".into(),
			rule: "gossipsim profile `mixed`: a universe of seeded channels/nodes with real signatures; announcements, updates and node announcements (valid, stale, equal-timestamp, badly signed, wrong chain, over-capacity) are delivered to a real NetworkGraph/P2PGossipSync in seeded order with duplicates, with synchronous or asynchronous UTXO lookups completing later in seeded order, RGS snapshots, pruning under a simulated clock (hook H2) with jumps, permanent-failure removals and serialisation round trips. Oracle: the graph equals a small reference model (latest authentic message per direction/node, nothing unauthenticated, nothing older than the staleness bounds); two delivery orders of the same message set converge. One evaluation = one seeded run (config, schedule and faults all drawn from the run seed; replay executes the recorded action trace). non-trivial = the run executed at least one payment/HTLC to a terminal state or fired at least one fault; distinct = distinct FNV hash of the executed (action kind, actor) sequence.".into(),
			assumptions: t_assumptions.clone(),
			probes: vec![],
			exhaustive: false,
		},
		"C19" => Plan {
			property: "C19".into(),
			tier,
			seed,
			jobs: vec![
				xjob("storesim", "v1", n(12000, 300000), verif_dir),
				xjob("storesim", "v2", n(12000, 300000), verif_dir),
				job("persistsim", "sync", n(2000, 40000)),
				job("persistsim", "async-fifo", n(1000, 20000)),
				job("persistsim", "async", n(200, 2000)),
			],
			level: "exploration".into(),
			rule: "storesim (v1 = FilesystemStore, v2 = FilesystemStoreV2) runs the real store on a tmpfs directory under shuttle's scheduler (hook H5 puts a scheduling point before every fs call and lets the simulator fail it): concurrent writers/readers/removers/listers per key, async two-phase writes executed out of order, injected io errors, crash = stop all threads at a scheduling point and reopen; the history is checked for linearizability against a map (per key: reads see the latest completed or an in-flight write, never garbage; versions never go back). persistsim (sync, async-fifo, async): real MonitorUpdatingPersister over a simulated atomic KV store driven by monitor histories from lnsim; after every store operation every crash state is recovered and compared (verif_eq) with the in-memory monitor as of the last update reported persisted; clean-up never removes a needed update. One evaluation = one seeded run (config, schedule and faults all drawn from the run seed; replay executes the recorded action trace). non-trivial = the run executed at least one payment/HTLC to a terminal state or fired at least one fault; distinct = distinct FNV hash of the executed (action kind, actor) sequence.".into(),
			assumptions: t_assumptions.clone(),
			probes: vec![],
			exhaustive: false,
		},
		_ => return None,
	};
	Some(plan)
}
