//! The universe owned by the simulator: node keys, funding keys, channels, and builders that turn
//! an explicit message specification (part of an `Action`) into (a) the real LDK wire message and
//! (b) an abstract descriptor carrying the *ground truth* about it (who really signed it, whether
//! the signature covers the content) — the reference model only ever looks at descriptors.

use bitcoin::constants::ChainHash;
use bitcoin::hashes::sha256d::Hash as Sha256dHash;
use bitcoin::hashes::Hash;
use bitcoin::network::Network;
use bitcoin::opcodes;
use bitcoin::script::{Builder, ScriptBuf};
use bitcoin::secp256k1::ecdsa::Signature;
use bitcoin::secp256k1::{All, Message, PublicKey, Secp256k1, SecretKey};
use bitcoin::{Amount, TxOut};
use lightning::ln::msgs::{
	ChannelAnnouncement, ChannelUpdate, NodeAnnouncement, SocketAddress, UnsignedChannelAnnouncement,
	UnsignedChannelUpdate, UnsignedNodeAnnouncement,
};
use lightning::routing::gossip::{NodeAlias, NodeId};
use lightning::types::features::{ChannelFeatures, NodeFeatures};
use lightning::util::ser::Writeable;
use serde::{Deserialize, Serialize};
use simcore::{fnv, mix, Rng};

pub type Pk = [u8; 33];

/// Node identities beyond the universe's own nodes (used for conflicting announcements and for
/// node announcements of nodes that never get a channel).
pub const N_EXTRA_NODES: usize = 2;
/// Keys that never appear in any message content; they only ever produce forged signatures.
pub const N_ROGUE: usize = 3;
pub const N_FRESH_BTC: usize = 4;
pub const N_PHANTOM: u8 = 3;

pub const NETWORK: Network = Network::Testnet;
pub const WRONG_NETWORK: Network = Network::Bitcoin;

/// 21 million BTC in millisatoshi (BOLT-7 sanity bound on htlc_maximum_msat).
pub const MAX_VALUE_MSAT: u64 = 21_000_000 * 100_000_000 * 1000;

#[derive(Clone, Debug, PartialEq, Serialize, Deserialize)]
pub struct ChanCfg {
	pub scid: u64,
	pub a: usize,
	pub b: usize,
	pub capacity_sats: u64,
}

#[derive(Clone, Copy, Debug, PartialEq, Eq, Serialize, Deserialize)]
pub enum ScidRef {
	Chan(usize),
	Phantom(u8),
}

#[derive(Clone, Copy, Debug, PartialEq, Eq, Serialize, Deserialize)]
pub enum BtcRef {
	/// the funding keys of the universe channel (the ones the simulated chain knows)
	Real,
	/// two other funding keys (the simulated chain output will not match)
	Fresh(u8),
	/// bitcoin_key_1 == bitcoin_key_2
	Same,
}

#[derive(Clone, Copy, Debug, PartialEq, Eq, Serialize, Deserialize)]
pub enum SigSpec {
	Good,
	/// signature number `which` (0 node1, 1 node2, 2 btc1, 3 btc2) made by a rogue key
	Rogue(u8),
	/// signature number `which` made by the right key over a different message
	OtherMsg(u8),
	/// the two node signatures made by each other's key (signed by other keys than announced)
	Swapped,
}

#[derive(Clone, Debug, PartialEq, Serialize, Deserialize)]
pub struct CaSpec {
	pub scid: ScidRef,
	pub a: usize,
	pub b: usize,
	pub btc: BtcRef,
	pub chain_ok: bool,
	pub sorted: bool,
	pub sig: SigSpec,
	pub excess: u16,
}

#[derive(Clone, Copy, Debug, PartialEq, Eq, Serialize, Deserialize)]
pub enum Signer {
	Node(usize),
	Rogue(u8),
}

#[derive(Clone, Debug, PartialEq, Serialize, Deserialize)]
pub struct CuSpec {
	pub scid: ScidRef,
	pub dir: u8,
	pub ts: u32,
	pub disabled: bool,
	pub cltv: u16,
	pub hmin: u64,
	pub hmax: u64,
	/// unique per generated message; carried in fee_base_msat so that whatever the graph shows
	/// can be traced back to exactly one message
	pub uid: u32,
	pub prop: u32,
	pub chain_ok: bool,
	pub signer: Signer,
	pub tampered: bool,
	pub excess: u16,
}

#[derive(Clone, Debug, PartialEq, Serialize, Deserialize)]
pub struct NaSpec {
	pub node: usize,
	pub ts: u32,
	/// unique per generated message; carried in the alias
	pub uid: u32,
	pub rgb: [u8; 3],
	pub feat: u8,
	pub addrs: u8,
	pub signer: Signer,
	pub tampered: bool,
	pub excess: u16,
}

#[derive(Clone, Copy, Debug, PartialEq, Eq, Serialize, Deserialize)]
pub enum UtxoAnswer {
	Real,
	WrongScript,
	UnknownTx,
	UnknownChain,
}

/// What the reference model needs to know about a lookup answer for a given announcement.
#[derive(Clone, Copy, Debug, PartialEq, Eq)]
pub enum UtxoOutcome {
	Match(u64),
	Mismatch,
	Error,
}

// ---- descriptors (ground truth about a message) ---------------------------------------------

#[derive(Clone, Debug, PartialEq)]
pub struct CaDesc {
	pub scid: u64,
	pub n1: Pk,
	pub n2: Pk,
	pub b1: Pk,
	pub b2: Pk,
	pub chain_ok: bool,
	/// all four signatures were made by the announced keys over this very content
	pub sigs_ok: bool,
	pub content_id: u64,
	pub full_id: u64,
}

#[derive(Clone, Debug, PartialEq)]
pub struct CuDesc {
	pub scid: u64,
	pub dir: u8,
	pub ts: u32,
	pub enabled: bool,
	pub cltv: u16,
	pub hmin: u64,
	pub hmax: u64,
	pub base: u32,
	pub prop: u32,
	pub chain_ok: bool,
	pub signer: Pk,
	pub tampered: bool,
}

#[derive(Clone, Debug, PartialEq)]
pub struct NaDesc {
	pub node: Pk,
	pub ts: u32,
	pub alias: [u8; 32],
	pub rgb: [u8; 3],
	pub features: Vec<u8>,
	pub addrs: Vec<u8>,
	pub signer: Pk,
	pub tampered: bool,
}

pub struct Universe {
	pub secp: Secp256k1<All>,
	pub n_nodes: usize,
	pub node_sk: Vec<SecretKey>,
	pub node_pk: Vec<PublicKey>,
	pub node_id: Vec<Pk>,
	pub chans: Vec<ChanCfg>,
	pub btc_sk: Vec<[SecretKey; 2]>,
	pub btc_pk: Vec<[Pk; 2]>,
	pub fresh_sk: Vec<SecretKey>,
	pub rogue_sk: Vec<SecretKey>,
}

fn derive_sk(seed: u64, label: u64, idx: u64) -> SecretKey {
	let mut r = Rng::new(mix(seed ^ label.wrapping_mul(0x9e3779b97f4a7c15), idx));
	loop {
		let b = r.bytes32();
		if let Ok(sk) = SecretKey::from_slice(&b) {
			return sk;
		}
	}
}

pub fn funding_script(k1: &Pk, k2: &Pk) -> ScriptBuf {
	// BOLT-3 funding output: 2 <lesser key> <greater key> 2 OP_CHECKMULTISIG, wrapped in P2WSH
	let (lo, hi) = if k1[..] < k2[..] { (k1, k2) } else { (k2, k1) };
	let ws = Builder::new()
		.push_opcode(opcodes::all::OP_PUSHNUM_2)
		.push_slice(lo)
		.push_slice(hi)
		.push_opcode(opcodes::all::OP_PUSHNUM_2)
		.push_opcode(opcodes::all::OP_CHECKMULTISIG)
		.into_script();
	ws.to_p2wsh()
}

fn digest<M: Writeable>(m: &M) -> Message {
	let enc = m.encode();
	let h = Sha256dHash::hash(&enc);
	Message::from_digest(h.to_byte_array())
}

impl Universe {
	pub fn new(key_seed: u64, n_nodes: usize, chans: Vec<ChanCfg>) -> Universe {
		let secp = Secp256k1::new();
		let total = n_nodes + N_EXTRA_NODES;
		let node_sk: Vec<SecretKey> = (0..total).map(|i| derive_sk(key_seed, 1, i as u64)).collect();
		let node_pk: Vec<PublicKey> =
			node_sk.iter().map(|sk| PublicKey::from_secret_key(&secp, sk)).collect();
		let node_id: Vec<Pk> = node_pk.iter().map(|pk| pk.serialize()).collect();
		let btc_sk: Vec<[SecretKey; 2]> = (0..chans.len())
			.map(|c| [derive_sk(key_seed, 2, 2 * c as u64), derive_sk(key_seed, 2, 2 * c as u64 + 1)])
			.collect();
		let btc_pk = btc_sk
			.iter()
			.map(|ks| {
				[
					PublicKey::from_secret_key(&secp, &ks[0]).serialize(),
					PublicKey::from_secret_key(&secp, &ks[1]).serialize(),
				]
			})
			.collect();
		let fresh_sk = (0..N_FRESH_BTC).map(|i| derive_sk(key_seed, 3, i as u64)).collect();
		let rogue_sk = (0..N_ROGUE).map(|i| derive_sk(key_seed, 4, i as u64)).collect();
		Universe { secp, n_nodes, node_sk, node_pk, node_id, chans, btc_sk, btc_pk, fresh_sk, rogue_sk }
	}

	pub fn total_nodes(&self) -> usize {
		self.node_sk.len()
	}

	pub fn scid_of(&self, r: ScidRef) -> Option<u64> {
		match r {
			ScidRef::Chan(i) => self.chans.get(i).map(|c| c.scid),
			ScidRef::Phantom(k) if k < N_PHANTOM => Some((0x0f_ff00u64 + k as u64) << 40 | 7 << 16 | 1),
			_ => None,
		}
	}

	pub fn chan_by_scid(&self, scid: u64) -> Option<usize> {
		self.chans.iter().position(|c| c.scid == scid)
	}

	fn pk_of(&self, sk: &SecretKey) -> Pk {
		PublicKey::from_secret_key(&self.secp, sk).serialize()
	}

	fn signer_sk(&self, s: Signer) -> Option<SecretKey> {
		match s {
			Signer::Node(i) => self.node_sk.get(i).cloned(),
			Signer::Rogue(k) => self.rogue_sk.get(k as usize).cloned(),
		}
	}

	fn sign(&self, m: &Message, sk: &SecretKey) -> Signature {
		self.secp.sign_ecdsa(m, sk)
	}

	/// The output the simulated chain holds for `scid` (None: no such transaction output).
	pub fn real_txout(&self, scid: u64) -> Option<TxOut> {
		let c = self.chan_by_scid(scid)?;
		Some(TxOut {
			value: Amount::from_sat(self.chans[c].capacity_sats),
			script_pubkey: funding_script(&self.btc_pk[c][0], &self.btc_pk[c][1]),
		})
	}

	/// What the simulated `UtxoLookup` hands back for (`answer`, `scid`).
	pub fn lookup_result(
		&self, answer: UtxoAnswer, scid: u64,
	) -> Result<TxOut, lightning::routing::utxo::UtxoLookupError> {
		use lightning::routing::utxo::UtxoLookupError;
		match answer {
			UtxoAnswer::Real => self.real_txout(scid).ok_or(UtxoLookupError::UnknownTx),
			UtxoAnswer::WrongScript => {
				let k1 = self.pk_of(&self.rogue_sk[0]);
				let k2 = self.pk_of(&self.rogue_sk[1]);
				let cap = self.chan_by_scid(scid).map(|c| self.chans[c].capacity_sats).unwrap_or(50_000);
				// a distinctive value, so that an accepted mismatching output would be visible
				Ok(TxOut { value: Amount::from_sat(cap + 1), script_pubkey: funding_script(&k1, &k2) })
			},
			UtxoAnswer::UnknownTx => Err(UtxoLookupError::UnknownTx),
			UtxoAnswer::UnknownChain => Err(UtxoLookupError::UnknownChain),
		}
	}

	/// Ground truth for the model: does the chain's answer confirm the announced funding keys?
	pub fn outcome(&self, answer: UtxoAnswer, d: &CaDesc) -> UtxoOutcome {
		match answer {
			UtxoAnswer::Real => match self.chan_by_scid(d.scid) {
				Some(c) => {
					let real = &self.btc_pk[c];
					let same = (d.b1 == real[0] && d.b2 == real[1]) || (d.b1 == real[1] && d.b2 == real[0]);
					if same {
						UtxoOutcome::Match(self.chans[c].capacity_sats)
					} else {
						UtxoOutcome::Mismatch
					}
				},
				None => UtxoOutcome::Error,
			},
			UtxoAnswer::WrongScript => UtxoOutcome::Mismatch,
			UtxoAnswer::UnknownTx | UtxoAnswer::UnknownChain => UtxoOutcome::Error,
		}
	}

	pub fn ca_valid(&self, spec: &CaSpec) -> bool {
		self.scid_of(spec.scid).is_some()
			&& spec.a < self.total_nodes()
			&& spec.b < self.total_nodes()
			&& spec.a != spec.b
			&& match spec.btc {
				BtcRef::Real => true,
				BtcRef::Fresh(k) => (k as usize) + 1 < N_FRESH_BTC,
				BtcRef::Same => true,
			} && match spec.sig {
			SigSpec::Good | SigSpec::Swapped => true,
			SigSpec::Rogue(w) | SigSpec::OtherMsg(w) => w < 4,
		}
	}

	pub fn build_ca(&self, spec: &CaSpec) -> (ChannelAnnouncement, CaDesc) {
		let scid = self.scid_of(spec.scid).expect("checked");
		let (mut x, mut y) = (spec.a, spec.b);
		let lesser_first = self.node_id[x][..] < self.node_id[y][..];
		if lesser_first != spec.sorted {
			std::mem::swap(&mut x, &mut y);
		}
		let (bsk1, bsk2): (SecretKey, SecretKey) = match (spec.btc, spec.scid) {
			(BtcRef::Real, ScidRef::Chan(c)) => (self.btc_sk[c][0], self.btc_sk[c][1]),
			(BtcRef::Real, ScidRef::Phantom(_)) => (self.fresh_sk[0], self.fresh_sk[1]),
			(BtcRef::Fresh(k), _) => (self.fresh_sk[k as usize], self.fresh_sk[k as usize + 1]),
			(BtcRef::Same, ScidRef::Chan(c)) => (self.btc_sk[c][0], self.btc_sk[c][0]),
			(BtcRef::Same, ScidRef::Phantom(_)) => (self.fresh_sk[0], self.fresh_sk[0]),
		};
		let (b1, b2) = (self.pk_of(&bsk1), self.pk_of(&bsk2));
		let contents = UnsignedChannelAnnouncement {
			features: ChannelFeatures::empty(),
			chain_hash: ChainHash::using_genesis_block(if spec.chain_ok { NETWORK } else { WRONG_NETWORK }),
			short_channel_id: scid,
			node_id_1: NodeId::from_slice(&self.node_id[x]).unwrap(),
			node_id_2: NodeId::from_slice(&self.node_id[y]).unwrap(),
			bitcoin_key_1: NodeId::from_slice(&b1).unwrap(),
			bitcoin_key_2: NodeId::from_slice(&b2).unwrap(),
			excess_data: (0..spec.excess).map(|i| (i % 251) as u8).collect(),
		};
		let m = digest(&contents);
		let mut other = contents.clone();
		other.short_channel_id ^= 1;
		let m_other = digest(&other);
		let mut sks = [self.node_sk[x], self.node_sk[y], bsk1, bsk2];
		let mut msgs = [m, m, m, m];
		let mut sigs_ok = true;
		match spec.sig {
			SigSpec::Good => {},
			SigSpec::Rogue(w) => {
				sks[w as usize] = self.rogue_sk[(w as usize) % N_ROGUE];
				sigs_ok = false;
			},
			SigSpec::OtherMsg(w) => {
				msgs[w as usize] = m_other;
				sigs_ok = false;
			},
			SigSpec::Swapped => {
				sks.swap(0, 1);
				sigs_ok = false;
			},
		}
		let ann = ChannelAnnouncement {
			node_signature_1: self.sign(&msgs[0], &sks[0]),
			node_signature_2: self.sign(&msgs[1], &sks[1]),
			bitcoin_signature_1: self.sign(&msgs[2], &sks[2]),
			bitcoin_signature_2: self.sign(&msgs[3], &sks[3]),
			contents,
		};
		let desc = CaDesc {
			scid,
			n1: self.node_id[x],
			n2: self.node_id[y],
			b1,
			b2,
			chain_ok: spec.chain_ok,
			sigs_ok,
			content_id: fnv(&ann.contents.encode()),
			full_id: fnv(&ann.encode()),
		};
		(ann, desc)
	}

	pub fn cu_valid(&self, spec: &CuSpec) -> bool {
		self.scid_of(spec.scid).is_some() && spec.dir < 2 && self.signer_sk(spec.signer).is_some()
	}

	pub fn build_cu(&self, spec: &CuSpec) -> (ChannelUpdate, CuDesc) {
		let scid = self.scid_of(spec.scid).expect("checked");
		let contents = UnsignedChannelUpdate {
			chain_hash: ChainHash::using_genesis_block(if spec.chain_ok { NETWORK } else { WRONG_NETWORK }),
			short_channel_id: scid,
			timestamp: spec.ts,
			message_flags: 1,
			channel_flags: spec.dir | if spec.disabled { 2 } else { 0 },
			cltv_expiry_delta: spec.cltv,
			htlc_minimum_msat: spec.hmin,
			htlc_maximum_msat: spec.hmax,
			fee_base_msat: spec.uid,
			fee_proportional_millionths: spec.prop,
			excess_data: (0..spec.excess).map(|i| (i % 249) as u8).collect(),
		};
		let sk = self.signer_sk(spec.signer).expect("checked");
		let m = if spec.tampered {
			let mut other = contents.clone();
			other.fee_proportional_millionths ^= 1;
			digest(&other)
		} else {
			digest(&contents)
		};
		let upd = ChannelUpdate { signature: self.sign(&m, &sk), contents };
		let desc = CuDesc {
			scid,
			dir: spec.dir,
			ts: spec.ts,
			enabled: !spec.disabled,
			cltv: spec.cltv,
			hmin: spec.hmin,
			hmax: spec.hmax,
			base: spec.uid,
			prop: spec.prop,
			chain_ok: spec.chain_ok,
			signer: self.pk_of(&sk),
			tampered: spec.tampered,
		};
		(upd, desc)
	}

	pub fn na_valid(&self, spec: &NaSpec) -> bool {
		spec.node < self.total_nodes() && self.signer_sk(spec.signer).is_some()
	}

	pub fn build_na(&self, spec: &NaSpec) -> (NodeAnnouncement, NaDesc) {
		let mut alias = [0u8; 32];
		let s = format!("node{}-msg{}", spec.node, spec.uid);
		alias[..s.len().min(32)].copy_from_slice(&s.as_bytes()[..s.len().min(32)]);
		let feat_bytes: Vec<u8> = match spec.feat % 4 {
			0 => vec![],
			1 => vec![0x02],
			2 => vec![0x00, 0x0a],
			_ => vec![0x80, 0x20, 0x01],
		};
		let addresses: Vec<SocketAddress> = match spec.addrs % 3 {
			0 => vec![],
			1 => vec![SocketAddress::TcpIpV4 { addr: [10, 0, spec.node as u8, (spec.uid % 250) as u8], port: 9735 }],
			_ => vec![
				SocketAddress::TcpIpV4 { addr: [192, 168, 1, spec.node as u8], port: 9000 + (spec.uid % 100) as u16 },
				SocketAddress::OnionV3 { ed25519_pubkey: [spec.node as u8; 32], checksum: 7, version: 3, port: 9735 },
			],
		};
		let contents = UnsignedNodeAnnouncement {
			features: NodeFeatures::from_le_bytes(feat_bytes),
			timestamp: spec.ts,
			node_id: NodeId::from_slice(&self.node_id[spec.node]).unwrap(),
			rgb: spec.rgb,
			alias: NodeAlias(alias),
			addresses: addresses.clone(),
			excess_address_data: vec![],
			excess_data: (0..spec.excess).map(|i| (i % 247) as u8).collect(),
		};
		let sk = self.signer_sk(spec.signer).expect("checked");
		let m = if spec.tampered {
			let mut other = contents.clone();
			other.rgb[0] ^= 1;
			digest(&other)
		} else {
			digest(&contents)
		};
		let features = contents.features.le_flags().to_vec();
		let ann = NodeAnnouncement { signature: self.sign(&m, &sk), contents };
		let desc = NaDesc {
			node: self.node_id[spec.node],
			ts: spec.ts,
			alias,
			rgb: spec.rgb,
			features,
			addrs: addresses.iter().flat_map(|a| a.encode()).collect(),
			signer: self.pk_of(&sk),
			tampered: spec.tampered,
		};
		(ann, desc)
	}
}
